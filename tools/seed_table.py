#!/usr/bin/env python3
"""tools/seed_table.py <n> [<n> ...]: markdown table of the seeded changes C??-<n> from their meta.json
(for DESIGN.md section 13)."""
import json, glob, re, sys
nums = set(sys.argv[1:])
rows = []
for p in sorted(glob.glob('/verif/seeded/C*/meta.json'), key=lambda s: (s.split('/')[-2].split('-')[0], int(s.split('/')[-2].split('-')[1]))):
    sid = p.split('/')[-2]
    if sid.split('-')[1] not in nums:
        continue
    m = json.load(open(p))
    first = 'caught' if m.get('first_triage', {}).get('caught') else 'missed'
    if m.get('caught'):
        sig = ''
        for c in m.get('checks_run', []):
            if c['exit'] == 1:
                sig = c['signatures'].split(';')[0][:90]
                now = f"{c['check']}: `{sig}`"
                break
    else:
        now = '**missed**'
    rows.append(f"| {sid} | {m.get('what_the_change_does','')} | {m.get('needs_to_manifest','')} | {first} | {now} |")
print("| seed | change | needs | first version of the check | now |\n|---|---|---|---|---|")
print("\n".join(rows))
