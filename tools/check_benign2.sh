#!/bin/bash
# tools/check_benign2.sh [name ...] — the second set of behaviour-preserving changes
# (seeded/benign2/*): every check must stay silent. Like tools/check_benign.sh, through
# tools/altcheck.sh (a scratch worktree; /repo is not touched).
cd /verif
NAMES="$@"; [ -z "$NAMES" ] && NAMES=$(ls seeded/benign2)
for n in $NAMES; do
    echo "$n: $(tools/altcheck.sh /verif/seeded/benign2/$n/patch.diff C03 C07 C08 C12 C13 C14 C17 C18 C19 | tr '\n' ' ')"
done
