#!/bin/bash
# tools/check_benign.sh [name ...] — behaviour-preserving changes (seeded/benign/*): every
# check must stay silent. Each patch is applied to a scratch worktree (tools/altcheck.sh) and
# all nine quick checks are run against it; /repo is not touched.
cd /verif
NAMES="$@"; [ -z "$NAMES" ] && NAMES=$(ls seeded/benign)
for n in $NAMES; do
    # a change made against an older tree may have been re-created for the current one
    P=/verif/seeded/benign/$n/patch.diff; [ -f /verif/seeded/benign/$n/patch_rebased.diff ] && P=/verif/seeded/benign/$n/patch_rebased.diff
    echo "$n: $(tools/altcheck.sh $P C03 C07 C08 C12 C13 C14 C17 C18 C19 | tr '\n' ' ')"
done
