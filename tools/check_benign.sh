#!/bin/bash
# tools/check_benign.sh [name ...] — behaviour-preserving changes (seeded/benign/*): every
# check must stay silent. Applies each to /repo, runs all quick checks, reverts. Evidence is restored.
cd /verif
NAMES="$@"; [ -z "$NAMES" ] && NAMES=$(ls seeded/benign)
mkdir -p /tmp/benign-ev; cp evidence/*.json /tmp/benign-ev/
for n in $NAMES; do
    [ -z "$(git -C /repo status --porcelain)" ] || { echo "/repo not clean"; exit 2; }
    git -C /repo apply /verif/seeded/benign/$n/patch.diff || { echo "$n: patch does not apply"; continue; }
    line="$n:"
    for c in C03 C07 C08 C12 C13 C14 C17 C18 C19; do
        ./check $c quick >/tmp/benign.out 2>&1; rc=$?
        if [ $rc -ne 0 ]; then
            line="$line $c=exit$rc[$(grep -E '^  signature:|HARNESS-ERROR' /tmp/benign.out | head -2 | sed 's/^  signature: //' | cut -c1-90 | tr '\n' ';')]"
        else
            line="$line $c=ok"
        fi
    done
    git -C /repo checkout -q -- . ; git -C /repo clean -fdq
    echo "$line"
done
cp /tmp/benign-ev/*.json evidence/; rm -rf /tmp/benign-ev /tmp/benign.out
