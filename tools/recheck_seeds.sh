#!/bin/bash
# tools/recheck_seeds.sh [seed-id ...] — run the owning check against kept seeds again, through
# tools/altcheck.sh (a scratch worktree of /repo with the patch applied; /repo is not touched).
cd /verif
SEEDS="$@"; [ -z "$SEEDS" ] && SEEDS=$(ls seeded | grep -E "^C[0-9]+-[0-9]+$")
for sid in $SEEDS; do
    prop=${sid%%-*}
    # a seed made against an older tree may have been re-created for the current one
    P=/verif/seeded/$sid/patch.diff; [ -f /verif/seeded/$sid/patch_rebased.diff ] && P=/verif/seeded/$sid/patch_rebased.diff
    extra=""; [ "$sid" = "C07-4" ] && extra="C14"
    # a crash that only a valid history reaches shows in the engine that runs histories
    [ "$sid" = "C07-17" ] && extra="C03"
    res=$(tools/altcheck.sh $P $prop $extra | tr '\n' ' ')
    echo "$sid $res"
done
