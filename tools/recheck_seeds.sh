#!/bin/bash
# tools/recheck_seeds.sh [seed-id ...]  — run the owning check against kept seeds again
# (git -C /repo apply, ./check <id> quick, git -C /repo checkout -- .); evidence is restored.
cd /verif
SEEDS="$@"; [ -z "$SEEDS" ] && SEEDS=$(ls seeded | grep -E "^C[0-9]+-[0-9]+$")
for sid in $SEEDS; do
    prop=${sid%%-*}
    [ -z "$(git -C /repo status --porcelain)" ] || { echo "/repo not clean"; exit 2; }
    # a seed made against an older tree may have been re-created for the current one
    P=/verif/seeded/$sid/patch.diff; [ -f /verif/seeded/$sid/patch_rebased.diff ] && P=/verif/seeded/$sid/patch_rebased.diff
    git -C /repo apply $P || { echo "$sid: patch does not apply"; continue; }
    cp evidence/$prop.json /tmp/recheck-ev.json 2>/dev/null
    extra=""; [ "$sid" = "C07-4" ] && extra="C14"
    res=""
    for c in $prop $extra; do
        [ "$c" != "$prop" ] && cp evidence/$c.json /tmp/recheck-ev2.json
        ./check $c quick >/tmp/recheck.out 2>&1; rc=$?
        [ "$c" != "$prop" ] && cp /tmp/recheck-ev2.json evidence/$c.json
        res="$res $c:exit=$rc:$(grep -E '^  signature:' /tmp/recheck.out | head -1 | sed 's/^  signature: //' | cut -c1-80)"
    done
    cp /tmp/recheck-ev.json evidence/$prop.json 2>/dev/null
    git -C /repo checkout -q -- . ; git -C /repo clean -fdq
    echo "$sid$res"
done
rm -f /tmp/recheck.out /tmp/recheck-ev.json /tmp/recheck-ev2.json
