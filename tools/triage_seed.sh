#!/bin/bash
# tools/triage_seed.sh <seed-id e.g. C18-1> [extra check ids...]
# Confirms a sub-agent's seeded change in its scratch worktree (applies, tests green,
# demonstration fails with / passes without), then runs the check(s) of /verif against
# it in /repo and reverts. Writes /verif/seeded/<seed-id>/{patch.diff,demo*,meta.json}.
set -u
SID="$1"; shift
PROP="${SID%%-*}"
SRC="/tmp/seed-out/$SID"
WT="/tmp/wt-$PROP"
OUT="/verif/seeded/$SID"
CHECKS="$PROP $*"
[ -f "$SRC/patch.diff" ] || { echo "no patch for $SID"; exit 2; }
cd "$WT" || exit 2
git checkout -q -- . ; git clean -fdq -e target
run_demo() {  # prints PASS or FAIL
    if [ -f "$SRC/demo.sh" ]; then
        cargo build --offline -q 2>/dev/null
        if bash "$SRC/demo.sh" "$WT/target/debug/ruschm" >/tmp/seed-demo-$SID.out 2>&1; then echo PASS; else echo FAIL; fi
    elif [ -f "$SRC/demo_test.rs" ]; then
        cp "$SRC/demo_test.rs" tests/zz_seed_demo.rs
        if cargo test --offline -q --test zz_seed_demo >/tmp/seed-demo-$SID.out 2>&1; then echo PASS; else echo FAIL; fi
        rm -f tests/zz_seed_demo.rs
    elif [ -f "$SRC/demo.scm" ]; then
        cargo build --offline -q 2>/dev/null
        d=$(mktemp -d); cp -r "$SRC"/. "$d"/
        ( cd "$d" && "$WT/target/debug/ruschm" demo.scm >out.txt 2>err.txt; echo "status=$?" >>out.txt )
        if [ -f "$SRC/expected.txt" ] && diff -q <(grep -v '^status=' "$d/out.txt") "$SRC/expected.txt" >/dev/null 2>&1; then echo PASS; else echo FAIL; fi
        cp "$d/out.txt" /tmp/seed-demo-$SID.out; rm -rf "$d"
    else
        echo NODEMO
    fi
}
CLEAN_DEMO=$(run_demo)
git apply "$SRC/patch.diff" || { echo "patch does not apply"; exit 2; }
if cargo test --workspace --no-fail-fast --offline >/tmp/seed-test-$SID.out 2>&1; then TESTS=green; else TESTS=red; fi
NPASS=$(grep -aE "^test result" /tmp/seed-test-$SID.out | awk '{s+=$4} END {print s}')
SEEDED_DEMO=$(run_demo)
git checkout -q -- . ; git clean -fdq -e target
echo "[$SID] tests with change: $TESTS ($NPASS passed); demo: clean=$CLEAN_DEMO seeded=$SEEDED_DEMO"
# now the checks of /verif against a scratch copy of the repository with the change applied
# (tools/altcheck.sh: /repo itself is not touched)
cd /verif
RESULTS=""
for C in $CHECKS; do
    LINE=$(tools/altcheck.sh "$SRC/patch.diff" "$C" | tail -1)
    RC=$(echo "$LINE" | sed -E 's/^[^:]*:exit=([0-9]+):.*/\1/')
    SIGS=$(echo "$LINE" | sed -E 's/^[^:]*:exit=[0-9]+://')
    echo "[$SID] check $C: exit $RC  $SIGS"
    RESULTS="$RESULTS$C"$'\x1f'"$RC"$'\x1f'"$SIGS"$'\x1e'
done
mkdir -p "$OUT"
cp "$SRC/patch.diff" "$OUT/"; cp "$SRC"/demo* "$OUT/" 2>/dev/null; cp "$SRC/expected.txt" "$OUT/" 2>/dev/null; cp "$SRC/notes.md" "$OUT/agent_notes.md" 2>/dev/null; cp "$SRC/agent_notes.md" "$OUT/" 2>/dev/null
for f in "$SRC"/*; do case "$f" in *.sld|*/lib|*/libs) cp -r "$f" "$OUT/";; esac; done
SID="$SID" PROP="$PROP" TESTS="$TESTS" NPASS="$NPASS" CLEAN_DEMO="$CLEAN_DEMO" SEEDED_DEMO="$SEEDED_DEMO" RESULTS="$RESULTS" WT="$WT" OUT="$OUT" python3 - <<'PY'
import json, os
res = []
for part in os.environ["RESULTS"].split("\x1e"):
    if part:
        c, rc, sigs = part.split("\x1f")
        res.append({"check": c, "exit": int(rc), "signatures": sigs})
meta = {
    "seed_id": os.environ["SID"], "property": os.environ["PROP"], "breaks": os.environ["PROP"],
    "tests_with_change": os.environ["TESTS"], "tests_passed": int(os.environ["NPASS"] or 0),
    "demo_on_clean_tree": os.environ["CLEAN_DEMO"], "demo_with_change": os.environ["SEEDED_DEMO"],
    "checks_run": res,
    "caught_by": [r["check"] for r in res if r["exit"] == 1],
    "ran": "tools/triage_seed.sh %s (scratch worktree %s: git apply, cargo test --workspace --offline, demonstration with and without the change; then tools/altcheck.sh: the quick check against a scratch worktree of /repo with the patch applied)" % (os.environ["SID"], os.environ["WT"]),
}
path = os.path.join(os.environ["OUT"], "meta.json")
old = {}
if os.path.exists(path):
    try:
        old = json.load(open(path))
    except Exception:
        old = {}
for k in ("what_the_change_does", "needs_to_manifest"):
    if k in old:
        meta[k] = old[k]
meta["caught"] = bool(meta["caught_by"])
json.dump(meta, open(path, "w"), indent=1)
PY
echo "[$SID] kept in $OUT"
