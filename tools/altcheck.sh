#!/bin/bash
# tools/altcheck.sh <patch.diff> <ID> [<ID>...]
# Runs quick checks against a SCRATCH copy of the repository with a patch applied, using a
# scratch copy of the harness whose "/repo" is redirected — /repo itself is not touched, so
# this is safe while registered checks or background runs use /repo. For triage only:
# registered checks always build from /repo. VERIF_SRC=<dir> takes the harness sources from a
# frozen copy (git archive HEAD | tar -x -C <dir>) instead of the live /verif, so that a long
# recheck is not disturbed by edits made meanwhile.
set -u
PATCH="$1"; shift
# ALT_TAG=<suffix> gives a second, independent pair of scratch directories
ALT=/tmp/verif-alt${ALT_TAG:-}
REPO_ALT=/tmp/repo-alt${ALT_TAG:-}
mkdir -p "$ALT"
# the scratch repository: a detached worktree at /repo's HEAD, reset for every call
if [ ! -d "$REPO_ALT/.git" ] && [ ! -f "$REPO_ALT/.git" ]; then
    git -C /repo worktree add -q --detach "$REPO_ALT" HEAD || exit 2
fi
git -C "$REPO_ALT" checkout -q --detach "$(git -C /repo rev-parse HEAD)" 2>/dev/null
git -C "$REPO_ALT" checkout -q -- . ; git -C "$REPO_ALT" clean -fdq -e target
if [ "$PATCH" != "-" ]; then
    git -C "$REPO_ALT" apply "$PATCH" || { echo "patch does not apply"; exit 2; }
fi
# the scratch harness: current sources of /verif with the repository path redirected
rsync -a --delete --exclude target --exclude replays --exclude evidence --exclude .git --exclude seeded "${VERIF_SRC:-/verif}/" "$ALT/"
sed -i "s#path = \"/repo\"#path = \"$REPO_ALT\"#" "$ALT/sim/Cargo.toml"
sed -i "s#cd /repo #cd $REPO_ALT #" "$ALT/check"
sed -i "s#\"/repo/{}\"#\"$REPO_ALT/{}\"#" "$ALT/sim/src/engine_d.rs"
sed -i "s#\"/repo/\"#\"/repo-alt${ALT_TAG:-}/\"#" "$ALT/sim/src/hashseed.rs"
mkdir -p "$ALT/evidence"
for C in "$@"; do
    ( cd "$ALT" && ./check "$C" quick ) >"$ALT/last-$C.out" 2>&1; rc=$?
    echo "$C:exit=$rc:$(grep -E '^  signature:|HARNESS-ERROR' "$ALT/last-$C.out" | head -2 | sed 's/^  signature: //' | cut -c1-90 | tr '\n' ';')"
done
