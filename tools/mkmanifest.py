#!/usr/bin/env python3
"""Regenerate /verif/MANIFEST.json from the table below and validate it."""
import json, os, sys
ROOT = os.path.dirname(os.path.dirname(os.path.abspath(__file__)))

CLAIMED = {
 "C03": dict(engine="store-sim", category="exploration", ref="DESIGN.md 4.1",
   technique="deterministic simulation: seeded histories of logical clients over shared state, checked step by step against a reference store model",
   text="Seeded exploration of operation histories (definitions, assignments, closure creation/calls, vector operations through every kind of alias) on one real interpreter; after every step the returned value, every global and the alias classes of all reachable vectors are compared with an independent reference store. Sampling, not proof: the space of histories is unbounded, and what matters is the order of writes and reads through different paths, which is exactly what the schedule varies. Histories include counters whose state lives in bindings made by internal defines (also evaluated late), by let / let* (one name bound twice) and inside the bodies of the bundled derived forms (begin, cond, when, or, and), vectors that contain themselves, redefined container names and integers, writes placed inside derived forms, globals named like the helpers' internals, a procedure-valued global that long-lived closures call, recursive and self-replacing definitions whose name is assigned, local bindings that shadow top-level procedures in tail position, and eqv? on closures as a form that only has to come back.",
   note="Trusted: the reference store model (sim/src/refint.rs), the structural observer, the getrandom seam for replay. Fault-free configuration; run-time errors other than literal-vector mutation are C08's."),
 "C08": dict(engine="store-sim", category="fault_enumeration", ref="DESIGN.md 4.2",
   technique="deterministic simulation with fault injection: run-time errors injected as faults at static position x dynamic occurrence into seeded histories, checked against a reference store model",
   text="Engine A's histories with 0-3 fault transactions each: 8 fault kinds x calling contexts (operand, tail, tail-if arm, after trampoline bounces, mutual tail recursion, apply, n-th element inside for-each/fold-left/fold-right/map, caller with post-effects, operand of a tail call, test of an if, argument of a setter closure, test / clause body / receiver / else of a cond, operand of and / or, body or test of when / unless / begin, definition initialiser), nested to depth 2, also as storms of the same failing form, with type faults placed after an absorbing element, improper lists handed to apply, numbers that are not exact integers (and the vector itself) as index or length, faults while the operator is worked out, inside vector construction, as internal-definition and redefinition initialisers, as arguments of a program macro, procedures applied where they are written, and a call with two failing operands judged order-neutrally (exactly one operand's effect and error), optionally firing at the n-th dynamic evaluation through a host procedure. The error kind, the host effect trace (pre-effects once, no post-effect) and the whole store are checked immediately after the error and for the rest of the history. Kind x context fired counts are reported in the evidence.",
   note="Trusted: reference store model, mapping of LogicError variants to error kinds, the (sim host) procedures. Which of several independent errors wins is never exercised (one fault per transaction)."),
}

CLAIMED.update({
 "C12": dict(engine="import-sim", category="exploration", ref="DESIGN.md 4.3",
   technique="deterministic simulation over the hash-order seam: each seeded import declaration is executed under several controlled HashMap key seeds and compared with a set-algebra model and with itself across seeds",
   text="Seeded import declarations (1-3 import sets, only/except/prefix/rename nested to depth 2 quick / 3 thorough, admissible by construction incl. swaps and chains) over a library delivered natively, as registered text or as a file; each run on a fresh interpreter under 4 (quick) / 16 (thorough) hash-key seeds supplied through an interposed getrandom. A third of the cases add a second declaration that may land on names the first one bound; a quarter make the declaration inside a wrapper library that passes on what it received; libraries with two exports of one value, with 20 exports (few names struck from it), with names that are prefixes of each other, with native procedures as exports (identity by the interpreter's own equality), with values not equal to themselves, a facade passing on another library's bindings, two libraries exporting equal-looking vectors under one name (identity probed through accessors); a failing declaration may come first; identifier lists naming an absent identifier and a second declaration rebinding an import are judged only if the implementation accepts them. Two verdicts: the bindings the declaration adds equal the algebra under every seed; all seeds agree. The second verdict and exact replay are what simulation adds; the term space itself is sampled, not enumerated.",
   note="Trusted: the set algebra (engine_c::algebra + refint import sets), getrandom interposition as the only source of HashMap order. Inadmissible declarations are not generated."),
 "C13": dict(engine="library-world", category="exploration", ref="DESIGN.md 4.4",
   technique="deterministic simulation: seeded library worlds (files + registered sources + decoy working directory) and histories of imports, driver probes and program forms, checked against a reference module system",
   text="Seeded worlds of 1-4 healthy libraries in a DAG with private state, private helpers, exports with and without rename; histories interleave import declarations (direct/prefix/only/rename) with driver-level calls of exported procedures and then program forms that redefine colliding names and call exported procedures. Libraries also re-export, export constants, rename exports onto internally bound names, import their dependencies through prefix/only/rename, keep a private macro or procedure of one common name, one library has no import declaration at all, one no export declaration, one is provided natively with a fresh mutable box per factory call, some assign a name they imported; declarations come in several pieces and orders, library files may hold other libraries or plain forms ahead of the wanted one; failing import declarations occur inside the histories; further: look-alike names (lib u v)/(lib |u v|), names with punctuation, drafts of other libraries in a file, one binding under two external names, a private procedure handed out, a body that calls a dependency while it loads (one such library per world), an assignment between definitions, the program directory respelled between declarations, and leniently imported libraries that redefine or assign an import. Every step is compared with a reference module system (one instance per library per interpreter); decoy libraries in the working directory must never be observed.",
   note="Trusted: reference module system in sim/src/refint.rs; libraries export procedures only. Fault-free configuration; faults are C14's."),
 "C14": dict(engine="library-world", category="fault_enumeration", ref="DESIGN.md 4.5",
   technique="deterministic simulation with fault injection: library health faults (missing, wrong name, faulting body, broken syntax, invalid UTF-8, directory, empty, truncated, dangling symlink), cycles and heal/break events injected into seeded import histories; oracle = graph analysis + fresh-interpreter run",
   text="Seeded arbitrary import graphs with per-node health faults placed on reachable nodes, histories of 1-4 import attempts on one interpreter with heal/break events between them, decoy libraries in the working directory, program directory absolute or relative, set late (attempts before any program ran) or moved to a second project between attempts; one run in 25 is a chain of 2-110 libraries (ending normally, in a back edge, in a missing or faulting library); attempts also through import sets that ask for nothing or keep everything; a library that exports a name it never defines; a library without exports imported by others and repeatedly. Each attempt's outcome class must be one of the causes reachable in the graph as it is (Ok if none), must not panic, and is compared with the same import on a fresh real interpreter (history independence); cases with two or more reachable causes are executed again under a second hash-key seed and must report the same sequence (the outcome depends only on the graph). Unbounded loader recursion is caught by a nesting limit in the verification hook, process death is caught through the worker journal.",
   note="Trusted: reachability/cycle analysis in engine_b::analyse; byte damage is placed inside the define-library form. Which of several reachable causes is reported is left open; after heal/break/move events an old version of a library is accepted only if an earlier attempt on that interpreter could have read it (or it was registered)."),
})

CLAIMED.update({
 "C19": dict(engine="isolation-sim", category="exploration", ref="DESIGN.md 4.9",
   technique="deterministic simulation: a seeded scheduler interleaves the forms of two programs over interpreter instances on one thread, with instance creation as a scheduled event; oracle = solo reference runs of the same real code on fresh threads",
   text="Seeded program pairs with colliding names (store operations, fault transactions, define-syntax of the same keywords incl. redefinitions of when/unless/cond/let, same-named libraries with different contents, failing imports) interleaved uniformly, in bursts, or one after the other over two or three instances that live on one thread (instances are created at first use and may be dropped after their last form; programs may run a small, often failing, file through eval_file); 0-3 further instances are created at random points and must evaluate a fixed sanity program like an instance on a fresh thread; a third of the programs assign or redefine names of the bundled libraries, a third contain forms that call a host procedure in the middle of their evaluation (also from a library body while it is loaded, and in texts with further forms to come), inside which the scheduler places forms of the other instances or the creation of an instance; further: storms of failing derived-form uses, variables named like derived forms, a natively provided and a one-instance-only registered library, a second declaration over an imported library, a library assigning in the native layer, instances without a program directory over a working directory with libraries of its own. Every form's result must equal the result of the same program run alone.",
   note="Trusted: structural observer; solo runs of the same build as reference (metamorphic, no expected values). Only the one-thread configuration is explored: instances on different threads share no state by construction."),
})

CLAIMED.update({
 "C17": dict(engine="cli-sim", category="fault_enumeration", ref="DESIGN.md 4.7",
   technique="deterministic simulation of whole process runs of the real binary: generated program/library files, working directory, path spelling, layout and file-level faults, one injected failing form; oracle = marker model + in-process evaluation of the same text",
   text="Each run launches the real ruschm binary (built from /repo) with an empty environment and a hash seed supplied through an LD_PRELOAD shim, over a generated world: program of 3-25 items that display marker-bracketed values, sibling libraries that print at load time, decoy libraries in unrelated working directories, four working directories x four path spellings, LF/CRLF, with or without final newline; two thirds of the runs contain exactly one failing form (run-time, syntax, import), a sixth a file-level fault (missing, directory, empty, invalid UTF-8, truncated); further: a working directory removed before the program starts, the program arriving through a named pipe, an interpreter line first, file names with spaces or other scripts, long definitions of multi-byte characters, bare value expressions, FILE spelled through a missing directory or a symbolic link; either load order of one declaration's import sets is accepted. Checked: marker sequence up to the failing form and nothing after, exit status, one diagnostic line PATH[:L:C] MESSAGE on stderr, byte-identical stdout / same message / same location as the in-process evaluation.",
   note="Trusted: marker model, ANSI stripping, the in-process run as rendering reference. Write errors on stdout and signals are not injected. Known gap (seeded change C17-19, DESIGN.md 13 round 10): program texts contain no string literal crossing a line end with blanks before the newline, so a reader that trims line ends is not noticed."),
 "C18": dict(engine="repl-sim", category="fault_enumeration", ref="DESIGN.md 4.8",
   technique="deterministic simulation of REPL sessions: a simulated user types generated lines into the real binary over a pipe in lock-step (FIONREAD + /proc/PID/syscall), several line splittings per sequence, EOF injected after a random line; oracle = nesting-depth judge + per-line output attribution + in-process transcript",
   text="Sessions of 3-20 submissions typed under three different line splittings each (breaks only inside forms, blank/whitespace/comment-only lines, trailing comments with parentheses, literals containing parentheses and semicolons in a third of the cases), one line at a time, waiting after each line until the child has consumed it and blocks in read(0). After a line that completes nothing, nothing may be printed; after a completing line stderr must carry exactly the message and stdout everything up to the last newline; the final transcript equals the in-process evaluation of the forms one after another (each form by itself, only the last value of a submission shown); transcripts agree across splittings; EOF after any line ends the session cleanly and input whose lists never closed produces no output. Sessions include string literals typed across two lines, literals containing parentheses and semicolons, vector literals, lines longer than a pipe buffer, macro definitions (also with an ellipsis) and uses, values of many kinds incl. ones printing as several lines or ending in a line break, effectful submissions ending in a surplus parenthesis or a dangling quote mark, a bar identifier ending in a backslash, and occasional sessions of 150-260 submissions.",
   note="Trusted: lock-step synchronisation through /proc (exit 2 if unreadable), the generator's depth count as completeness judge, in-process evaluation of single forms as transcript reference; banner and farewell are learned from an empty session of the same binary. Polling uses real sleeps only to wait; no outcome depends on timing."),
})

CLAIMED.update({
 "C07": dict(engine="damage-sim", category="fault_enumeration", ref="DESIGN.md 4.6",
   technique="deterministic simulation with storage-fault injection: valid program and library files are damaged (truncation, bit flips, zeroed/duplicated/transposed sectors, stale tail, BOM, dropped/inserted bytes, directory/empty/dangling in place of a file) and then used on a fresh interpreter under an evaluation budget; oracle = returns, never panics, interpreter still usable",
   text="The storage-fault slice of C07: the interpreter is a reader of files it does not control. Seeded worlds of valid sources (repository examples, bundled library texts used as user files, programs and library worlds rendered from engines A and B) receive 1-3 storage faults and are used through eval_file / import (or eval of the lossily decoded text); the call must return Ok or Err without panicking, and sanity forms (plus a further import when the failure struck while the program was still importing) must then evaluate on the same interpreter; a quarter of the runs hand the damaged world to the real ruschm binary instead, which must end with a diagnostic and not with a panic; in-process runs have a wall-clock deadline of 45 s (evaluation is bounded by the step budget, so only reading or expanding can exceed it); damage includes one or two inserted bytes (biased towards pairs that open or close something in the reader) and whole-file duplication; the corpus includes macro-heavy, ellipsis-heavy, non-ASCII and edge-escape programs and engine A histories with their fault transactions. Budget exhaustion, timeouts, stack and memory exhaustion are counted and discarded as the property says.",
   note="Only the part of C07 that mentions files with faults is decided. The clause over all character sequences as such (exhaustive short strings, token soup) is input enumeration with nothing to schedule or inject; it is not emulated. Trusted: panic hook + catch_unwind, budget hooks, worker journal for process deaths."),
})

NOT_APPLICABLE = {
 "C01": "pure function of the program text: no schedule, interleaving, clock, stream or fault for a simulator to own (DESIGN.md 8)",
 "C02": "stack and heap use of one deterministic run as a function of (program, N): resource monitoring of a single execution, nothing scheduled, no fault whose timing matters (DESIGN.md 8)",
 "C04": "expansion is a pure function of (rule set, use) (DESIGN.md 8)",
 "C05": "value and evaluation trace are a pure function of the program (DESIGN.md 8)",
 "C06": "the datum is a pure function of the text (DESIGN.md 8)",
 "C09": "pure function of the operand tuple (DESIGN.md 8)",
 "C10": "pure function of the operand tuple (DESIGN.md 8)",
 "C11": "pure function of the arguments (DESIGN.md 8)",
 "C15": "pure function of the program text and its layout (DESIGN.md 8)",
 "C16": "pure function of the value (DESIGN.md 8)",
}

PENDING = {}

def main():
    pending = dict(PENDING)
    checks = []
    for pid, c in sorted(CLAIMED.items()):
        checks.append({
            "property_id": pid,
            "quick_cmd": f"./check {pid} quick",
            "thorough_cmd": f"./check {pid} thorough",
            "evidence_file": f"/verif/evidence/{pid}.json",
            "replay_cmd_template": "./check replay {path}",
            "engine": c["engine"],
            "level_claimed": {"category": c["category"], "text": c["text"], "design_ref": c["ref"]},
            "level_note": c["note"],
            "technique": c["technique"],
        })
    na = [{"property_id": k, "reason": v} for k, v in sorted({**NOT_APPLICABLE, **pending}.items())]
    engines = {}
    for pid, c in CLAIMED.items():
        engines.setdefault(c["engine"], []).append(pid)
    manifest = {
        "version": 1,
        "setup_cmd": "./check build",
        "hooks": {
            "guard": "ruschm_verif",
            "enable": "RUSTFLAGS=\"--cfg ruschm_verif\" (set by ./check for the simulator and for the ruschm binary it builds from /repo)",
            "baseline_off_cmd": "cd /repo && cargo test --workspace --no-fail-fast --offline",
            "source_commits": HOOK_COMMITS,
            "add_only": True,
        },
        "engines": [{"name": n, "path": "sim/src", "serves_properties": sorted(p),
                     "kind_free_text": "seeded deterministic simulator, see DESIGN.md"} for n, p in sorted(engines.items())],
        "checks": checks,
        "not_applicable": na,
        "notes": "All checks are `./check <ID> quick|thorough`; VERIF_SEED selects the base seed (default 20261004). Exit 2 = harness error. Known findings: known_findings.jsonl.",
    }
    path = os.path.join(ROOT, "MANIFEST.json")
    json.dump(manifest, open(path, "w"), indent=1)
    try:
        import jsonschema
        jsonschema.validate(manifest, json.load(open("/root/.vp/MANIFEST.schema.json")))
        props = [json.loads(l)["id"] for l in open(os.path.join(ROOT, "properties.jsonl"))]
        covered = set(CLAIMED) | {x["property_id"] for x in na}
        assert covered == set(props), (set(props) - covered, covered - set(props))
        assert not (set(CLAIMED) & {x["property_id"] for x in na})
        print("MANIFEST.json valid;", len(checks), "claimed,", len(na), "not applicable")
    except ImportError:
        print("jsonschema not available; written without validation")

HOOK_COMMITS = ["c4e6571", "6156fa9", "3c9db15"]
if __name__ == "__main__": main()
