#!/usr/bin/env python3
"""tools/update_meta_from_log.py <recheck log>: refresh seeded/<id>/meta.json from the output of tools/recheck_seeds.sh"""
import json, re, subprocess, sys, glob
head = subprocess.run(['git', '-C', '/repo', 'log', '--format=%h', '-1'], capture_output=True, text=True).stdout.strip()
for line in open(sys.argv[1]).read().splitlines():
    m = re.match(r'^(C\d\d-\d+) (.*)$', line)
    if not m:
        continue
    sid, rest = m.group(1), m.group(2)
    # one "<check>:exit=<n>:<signatures>" per check; signatures may contain blanks
    runs = []
    for part in re.split(r'\s+(?=C\d\d:exit=)', rest.strip()):
        pm = re.match(r'^(C\d\d):exit=(\d+):(.*)$', part.strip())
        if pm:
            runs.append({"check": pm.group(1), "exit": int(pm.group(2)), "signatures": pm.group(3).strip()})
    if not runs:
        continue
    p = f'/verif/seeded/{sid}/meta.json'
    meta = json.load(open(p))
    if "first_triage" not in meta:
        first = meta.get("checks_run")
        meta["first_triage"] = {"checks_run": first, "caught": any(c["exit"] == 1 for c in (first or []))}
    meta["checks_run"] = runs
    meta["caught_by"] = [r["check"] for r in runs if r["exit"] == 1]
    meta["caught"] = bool(meta["caught_by"])
    meta["last_recheck"] = "tools/recheck_seeds.sh against /repo " + head
    json.dump(meta, open(p, 'w'), indent=1)
missed = [s.split('/')[-2] for s in sorted(glob.glob('/verif/seeded/C*/meta.json')) if not json.load(open(s))['caught']]
print("not caught:", missed)
