#!/usr/bin/env python3
"""tools/fill_design_tables.py: replace the @@TABLEn@@ / @@TOTALS@@ placeholders of DESIGN.md section 13
with tables and totals derived from seeded/*/meta.json (run after tools/update_meta_from_log.py)."""
import json, glob, re, subprocess

ROUND = {5: ('9', '10'), 6: ('11', '12'), 7: ('13', '14'), 8: ('15', '16'), 9: ('17', '18')}

def table(nums):
    return subprocess.run(['python3', '/verif/tools/seed_table.py', *nums], capture_output=True, text=True).stdout.strip()

s = open('/verif/DESIGN.md').read()
for r, nums in ROUND.items():
    tag = f'@@TABLE{r}@@'
    if tag in s:
        s = s.replace(tag, table(nums))

metas = [json.load(open(p)) | {'id': p.split('/')[-2]} for p in sorted(glob.glob('/verif/seeded/C*/meta.json'))]
total = len(metas)
first = sum(1 for m in metas if m.get('first_triage', {}).get('caught'))
now = sum(1 for m in metas if m.get('caught'))
missed = sorted(m['id'] for m in metas if not m.get('caught'))
later = now - sum(1 for m in metas if m.get('caught') and m.get('first_triage', {}).get('caught'))
lost = sorted(m['id'] for m in metas if m.get('first_triage', {}).get('caught') and not m.get('caught'))
text = (f"Over the nine rounds: {total} changes. {first} were caught by the checks as they were when the change "
        f"arrived; {later} more are caught since the generators or oracles were widened in the direction the change "
        f"pointed at (never beyond the property's wording, and re-checked against the behaviour-preserving changes); "
        f"{len(missed)} are not caught: {', '.join(missed)} — each is explained in its round (inputs without any fault, "
        f"location correctness, further command-line arguments, write errors on standard output, colliding 32-bit hashes). "
        f"All figures come from the last run of `tools/recheck_seeds.sh` over every kept change against the final checks "
        f"(`seeded/*/meta.json`, field `last_recheck`).")
if lost:
    text += f" Caught on arrival but not by the final checks: {', '.join(lost)}."
s = s.replace('@@TOTALS@@', text)
open('/verif/DESIGN.md', 'w').write(s)
print(total, first, now, missed, lost)
