//! LD_PRELOAD shim for the real `ruschm` binary: `getrandom` (which std resolves
//! through a weak symbol for HashMap keys) answers from RUSCHM_VERIF_HASH_SEED, so
//! that the iteration order of the interpreter's hash maps is a function of the
//! simulator's seed. Without the variable the call goes to the kernel.

use std::ffi::{c_char, c_long, c_uint, c_void};
use std::sync::atomic::{AtomicU64, Ordering};

extern "C" {
    fn syscall(num: c_long, ...) -> c_long;
    fn getenv(name: *const c_char) -> *const c_char;
}

const SYS_GETRANDOM: c_long = 318; // x86_64

static CALLS: AtomicU64 = AtomicU64::new(0);

fn splitmix64(x: u64) -> u64 {
    let mut z = x.wrapping_add(0x9E37_79B9_7F4A_7C15);
    z = (z ^ (z >> 30)).wrapping_mul(0xBF58_476D_1CE4_E5B9);
    z = (z ^ (z >> 27)).wrapping_mul(0x94D0_49BB_1331_11EB);
    z ^ (z >> 31)
}

unsafe fn seed_from_env() -> Option<u64> {
    let p = getenv(b"RUSCHM_VERIF_HASH_SEED\0".as_ptr() as *const c_char);
    if p.is_null() {
        return None;
    }
    let mut v: u64 = 0;
    let mut q = p;
    let mut any = false;
    while *q != 0 {
        let c = *q as u8;
        if !c.is_ascii_digit() {
            return None;
        }
        v = v.wrapping_mul(10).wrapping_add((c - b'0') as u64);
        any = true;
        q = q.add(1);
    }
    if any { Some(v) } else { None }
}

/// # Safety
/// called by libc users with a valid buffer
#[no_mangle]
pub unsafe extern "C" fn getrandom(buf: *mut c_void, len: usize, flags: c_uint) -> isize {
    match seed_from_env() {
        None => syscall(SYS_GETRANDOM, buf, len, flags) as isize,
        Some(seed) => {
            let n = CALLS.fetch_add(1, Ordering::SeqCst);
            let mut x = splitmix64(seed ^ splitmix64(n));
            let b = buf as *mut u8;
            for i in 0..len {
                x = splitmix64(x);
                *b.add(i) = (x >> 24) as u8;
            }
            len as isize
        }
    }
}
