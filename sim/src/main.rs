//! ruschm-sim: deterministic simulation with fault injection for Ruschm.
//!   ruschm-sim check <ID> quick|thorough
//!   ruschm-sim replay <file>
//!   ruschm-sim worker ...      (internal)
//!   ruschm-sim runcase <ID> <case.json>   (internal)
//!   ruschm-sim gen <ID> <index> [quick|thorough]   print the generated case
//!   ruschm-sim selfcheck determinism [ID...]

mod engine_a;
mod engine_b;
mod engine_c;
mod engine_d;
mod engine_e;
mod engine_f;
mod engine_g;
mod framework;
mod hashseed;
mod observe;
mod procio;
mod refint;
mod rng;
mod sandbox;
mod sexp;

use framework::Engine;

fn engine_for(prop: &str) -> Option<&'static dyn Engine> {
    match prop {
        "C03" => Some(&engine_a::ENGINE_C03),
        "C08" => Some(&engine_a::ENGINE_C08),
        "C07" => Some(&engine_d::ENGINE_C07),
        "C12" => Some(&engine_c::ENGINE_C12),
        "C13" => Some(&engine_b::ENGINE_C13),
        "C14" => Some(&engine_b::ENGINE_C14),
        "C19" => Some(&engine_g::ENGINE_C19),
        "C17" => Some(&engine_e::ENGINE_C17),
        "C18" => Some(&engine_f::ENGINE_C18),
        _ => None,
    }
}

const ALL: &[&str] = &["C03", "C07", "C08", "C12", "C13", "C14", "C17", "C18", "C19"];

fn main() {
    hashseed::install_panic_hook();
    let args: Vec<String> = std::env::args().skip(1).collect();
    let code = match args.first().map(|s| s.as_str()) {
        Some("check") if args.len() >= 3 => match engine_for(&args[1]) {
            Some(e) => framework::check_main(e, &args[2]),
            None => {
                println!("no engine for {}", args[1]);
                2
            }
        },
        Some("worker") if args.len() >= 5 => match engine_for(&args[1]) {
            Some(e) => framework::worker_main(e, &args[2..]),
            None => 2,
        },
        Some("replay") if args.len() >= 2 => framework::replay_main(&engine_for, &args[1]),
        Some("runcase") if args.len() >= 3 => match engine_for(&args[1]) {
            Some(e) => {
                let text = std::fs::read_to_string(&args[2]).expect("case file");
                let case: serde_json::Value = serde_json::from_str(&text).expect("case json");
                // whatever the system under test prints must not reach the result channel
                let mut proto = procio::take_over_stdout();
                let r = e.execute(&case);
                use std::io::Write;
                let _ = writeln!(proto, "RESULT {}", framework::result_json(&r));
                0
            }
            None => 2,
        },
        Some("gen") if args.len() >= 3 => match engine_for(&args[1]) {
            Some(e) => {
                let i: u64 = args[2].parse().unwrap();
                let quick = args.get(3).map(|s| s != "thorough").unwrap_or(true);
                let seed = rng::run_seed(framework::base_seed(), e.property(), i);
                let case = e.generate(seed, quick);
                println!("{}", serde_json::to_string_pretty(&case).unwrap());
                let r = e.execute(&case);
                for l in &r.log {
                    println!("{}", l);
                }
                println!("{}", framework::result_json(&r));
                0
            }
            None => 2,
        },
        Some("selfcheck") => framework::selfcheck_main(&engine_for, ALL, &args[1..]),
        _ => {
            println!("usage: ruschm-sim check <ID> quick|thorough | replay <file> | selfcheck determinism");
            2
        }
    };
    std::process::exit(code);
}
