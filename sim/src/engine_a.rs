//! Engine A, "store-sim": histories of top-level forms on one interpreter, driven
//! by logical clients that share variables, closures and vectors; checked against
//! the reference store after every step. Fault-free configuration = C03,
//! fault-injecting configuration (run-time errors as faults) = C08.

use crate::framework::*;
use crate::hashseed::{on_fresh_thread, ThreadOutcome};
use crate::observe::*;
use crate::refint::{Machine, RErr, VecId, RV};
use crate::rng::{fnv64, Rng};
use crate::sexp::{call, int, list, parse_one, quote, sym, Sx};
use serde_json::{json, Value};
use std::collections::{BTreeMap, BTreeSet};

pub struct EngineA {
    pub faults: bool,
}

pub static ENGINE_C03: EngineA = EngineA { faults: false };
pub static ENGINE_C08: EngineA = EngineA { faults: true };

#[derive(Clone, Copy, Debug, PartialEq, Eq, PartialOrd, Ord)]
enum Role {
    Int,
    Counter,
    Acc,
    Cell,
    Vec,
    VecList,
    VSetter,
    VGetter,
    Adder,
    CounterList,
    Nest,
    /// a vector that contains itself in one slot; never stored anywhere else, never printed
    /// by the interpreter, never handed to a faulting operation
    CycVec,
}

const HANDLE_ROLES: &[Role] = &[Role::Vec, Role::Counter, Role::Acc];

struct FormRec {
    text: String,
    kind: String,
    /// global names through which the form reaches shared state
    roots: Vec<String>,
    write: bool,
}

struct Gen {
    rng: Rng,
    m: Machine,
    forms: Vec<FormRec>,
    roles: BTreeMap<String, Role>,
    next_id: BTreeMap<&'static str, u32>,
    helpers: BTreeSet<String>,
    next_site: i64,
    next_note: i64,
    armed: BTreeMap<i64, u64>,
    gen_errors: Vec<String>,
    weights: Vec<u32>,
    max_vectors: usize,
    max_closures: usize,
    hook_defined: bool,
    callers: Vec<String>,
    rec_made: u32,
}

const HELPERS: &[(&str, &str)] = &[
    ("make-counter", "(define (make-counter n) (lambda () (set! n (+ n 1)) n))"),
    ("make-acc", "(define (make-acc total) (lambda (d) (set! total (+ total d)) total))"),
    (
        "make-cell",
        "(define (make-cell v) (cons (lambda () v) (cons (lambda (x) (set! v x) x) '())))",
    ),
    ("twice", "(define (twice f) (f) (f))"),
    ("each2", "(define (each2 f l) (f (car l)) (each f (cdr l)))"),
    ("each", "(define (each f l) (if (pair? l) (each2 f l) 0))"),
    ("vset!", "(define (vset! v i x) (vector-set! v i x) x)"),
    ("vget", "(define (vget v i) (vector-ref v i))"),
    ("make-vsetter", "(define (make-vsetter v) (lambda (i x) (vector-set! v i x) x))"),
    ("make-vgetter", "(define (make-vgetter v) (lambda (i) (vector-ref v i)))"),
    (
        "collect",
        "(define (collect k) (if (= k 0) '() (cons (make-counter (* k 10)) (collect (- k 1)))))",
    ),
    // closures made inside the procedure handed to a library procedure: one fresh binding per element
    ("map-collect", "(define (map-collect l) (map (lambda (k) (lambda () (set! k (+ k 100)) k)) l))"),
    ("make-nest", "(define (make-nest n) (lambda () (lambda () (set! n (+ n 1)) n)))"),
    (
        "loop-collect",
        "(define (loop-collect k acc) (if (= k 0) acc (loop-collect (- k 1) (cons (lambda () (set! k (+ k 100)) k) acc))))",
    ),
    (
        "loop-collect-a",
        "(define (loop-collect-a k acc) (if (= k 0) acc (loop-collect-b (- k 1) (cons (lambda () (set! k (+ k 100)) k) acc))))",
    ),
    (
        "loop-collect-b",
        "(define (loop-collect-b k acc) (if (= k 0) acc (loop-collect-a (- k 1) (cons (lambda () k) acc))))",
    ),
    (
        "vswap!",
        "(define (vswap! v i j) (define t (vector-ref v i)) (vector-set! v i (vector-ref v j)) (vector-set! v j t) t)",
    ),
    ("vfill2", "(define (vfill2 v i x) (vector-set! v i x) (vfill! v (+ i 1) x))"),
    ("vfill!", "(define (vfill! v i x) (if (< i (vector-length v)) (vfill2 v i x) x))"),
    ("make-ctr0", "(define (make-ctr0) (define n 0) (lambda () (set! n (+ n 1)) n))"),
    ("rest-id", "(define (rest-id . r) r)"),
    ("call-it", "(define (call-it f) (f))"),
    (
        "make-late",
        "(define (make-late) (define get ((lambda (dummy) (lambda () late)) 0)) (define late 5) (lambda () (set! late (+ late 1)) (get)))",
    ),
    ("make-lctr", "(define (make-lctr k) (let ((n k) (step 1)) (lambda () (set! n (+ n step)) n)))"),
    (
        "make-l2",
        "(define (make-l2 k) (let* ((n k) (get (lambda () n)) (n (+ n 100))) (lambda () (set! n (+ n 1)) (+ n (get)))))",
    ),
    (
        "make-ictr",
        "(define (make-ictr k) (define n k) (define (bump) (set! n (+ n 1)) n) (bump) (lambda () (bump) n))",
    ),
    (
        // a let that is an operand (not a tail form) whose initialiser closes over the OUTER n
        "make-l3",
        "(define (make-l3 n) (car (cons (let ((n (+ n 100)) (get (lambda () n)) (put (lambda (v) (set! n v) v))) (lambda () (set! n (+ n 1)) (put (+ (get) 2)) (+ n (get)))) '())))",
    ),
    // an internal definition that carries the name of a parameter: one binding, not two
    ("make-pctr", "(define (make-pctr n) (define n (+ n 10)) (lambda () (set! n (+ n 1)) n))"),
    // a closure whose frame stays alive and that calls whatever the global `hook` holds NOW
    ("make-caller", "(define (make-caller k) (lambda () (+ k (hook))))"),
    // a tail call whose first operand is the bare variable and whose second closes over it
    ("make-vc", "(define (make-vc v) (cons v (lambda () (set! v (+ v 1)) v)))"),
    ("make-vv", "(define (make-vv v) (vector v (lambda () (set! v (+ v 2)) v) v))"),
    // a parameter, and an internal definition, that carry the name of a top-level procedure and
    // are called in tail position: the call reaches the local binding
    ("call-f2", "(define (call-f2 f2 a) (f2 a 1))"),
    ("shadow-f0", "(define (shadow-f0 k) (define (f0) (+ k 70)) (f0))"),
    ("make-bctr", "(define (make-bctr k) (begin (define n k) (lambda () (set! n (+ n 1)) n)))"),
    (
        "make-cctr",
        "(define (make-cctr k) (cond ((< k 0) (lambda () k)) ((= k 1000) 0) (else (set! k (+ k 1)) (lambda () (set! k (+ k 1)) k))))",
    ),
    ("make-wctr", "(define (make-wctr k) (when (>= k 0) (set! k (+ k 1)) (lambda () (set! k (+ k 2)) k)))"),
    ("make-octr", "(define (make-octr k) (or (and (< k 0) k) (lambda () (set! k (+ k 1)) k)))"),
    ("make-actr", "(define (make-actr k) (and k (>= k 0) (lambda () (set! k (+ k 1)) k)))"),
    ("pair-up", "(define (pair-up a . r) (cons a r))"),
    (
        "make-chain",
        "(define (make-chain n next) (lambda () (set! n (+ n 1)) (if (procedure? next) (next) n)))",
    ),
    ("self-many", "(define (self-many n) (if (= n 0) 0 (self-many (- n 1) 99)))"),
    ("self-few", "(define (self-few n m) (if (= n 0) m (self-few (- n 1))))"),
    ("f0", "(define (f0) 10)"),
    ("f2", "(define (f2 a b) (+ a b))"),
    ("fr", "(define (fr a b . r) (+ a b))"),
    ("fv", "(define (fv . r) 11)"),
];

impl Gen {
    fn fresh(&mut self, prefix: &'static str) -> String {
        let n = self.next_id.entry(prefix).or_insert(0);
        let s = format!("{}{}", prefix, n);
        *n += 1;
        s
    }
    fn emit(&mut self, sx: Sx, kind: &str, roots: Vec<String>, write: bool) {
        let r = self.m.eval_top(&sx);
        if let Err(RErr::Unsupported(s)) = &r {
            self.gen_errors.push(format!("{}: {}", sx, s));
        }
        if let Err(RErr::Budget) = &r {
            self.gen_errors.push(format!("{}: budget", sx));
        }
        self.forms.push(FormRec {
            text: sx.to_text(),
            kind: kind.to_string(),
            roots,
            write,
        });
    }
    fn emit_text(&mut self, text: &str, kind: &str) {
        let sx = parse_one(text).expect("helper text parses");
        self.emit(sx, kind, vec![], false);
    }
    fn need(&mut self, helper: &str) {
        if self.helpers.contains(helper) {
            return;
        }
        if helper == "each" {
            self.need("each2");
        }
        if helper == "collect" {
            self.need("make-counter");
        }
        if helper == "vfill!" {
            self.need("vfill2");
        }
        if helper == "loop-collect-a" {
            self.need("loop-collect-b");
        }
        let text = HELPERS.iter().find(|(n, _)| *n == helper).expect("helper").1;
        self.helpers.insert(helper.to_string());
        self.emit_text(text, "helper");
    }
    fn names_with(&self, role: Role) -> Vec<String> {
        self.roles
            .iter()
            .filter(|(_, r)| **r == role)
            .map(|(n, _)| n.clone())
            .collect()
    }
    fn pick_name(&mut self, role: Role) -> Option<String> {
        let v = self.names_with(role);
        if v.is_empty() {
            None
        } else {
            Some(self.rng.pick(&v).clone())
        }
    }
    fn vec_id(&self, name: &str) -> Option<VecId> {
        match self.m.root.lookup(name) {
            Some(RV::Vector(id)) => Some(id),
            _ => None,
        }
    }
    fn small_lit(&mut self) -> i64 {
        self.rng.range(-9, 99)
    }
    fn small_lit_pure(&mut self) -> i64 {
        self.rng.range(-9, 99)
    }
    /// a pure integer-valued expression
    fn int_expr(&mut self, depth: u32) -> (Sx, Vec<String>) {
        let choice = self.rng.upto(if depth == 0 { 3 } else { 6 });
        match choice {
            0 | 1 => (int(self.small_lit()), vec![]),
            2 => match self.pick_name(Role::Int) {
                Some(n) => (sym(&n), vec![n]),
                None => (int(self.small_lit()), vec![]),
            },
            3 => {
                let (a, mut ra) = self.int_expr(depth - 1);
                let (b, rb) = self.int_expr(depth - 1);
                ra.extend(rb);
                let op = *self.rng.pick(&["+", "-"]);
                (call(op, vec![a, b]), ra)
            }
            4 => {
                // read an integer slot of a vector
                if let Some(n) = self.pick_name(Role::Vec) {
                    if let Some(id) = self.vec_id(&n) {
                        let slots: Vec<usize> = self.m.vectors[id]
                            .items
                            .iter()
                            .enumerate()
                            .filter(|(_, x)| matches!(x, RV::Int(_)))
                            .map(|(i, _)| i)
                            .collect();
                        if !slots.is_empty() {
                            let i = *self.rng.pick(&slots);
                            return (call("vector-ref", vec![sym(&n), int(i as i64)]), vec![n]);
                        }
                    }
                }
                (int(self.small_lit()), vec![])
            }
            _ => match self.pick_name(Role::Vec) {
                Some(n) => (call("vector-length", vec![sym(&n)]), vec![n]),
                None => (int(self.small_lit()), vec![]),
            },
        }
    }

    fn reaches(&self, from: &RV, target: VecId, depth: u32) -> bool {
        if depth > 50 {
            return true;
        }
        match from {
            RV::Vector(id) => {
                *id == target
                    || self.m.vectors[*id]
                        .items
                        .iter()
                        .any(|x| self.reaches(x, target, depth + 1))
            }
            RV::Pair(p) => self.reaches(&p.0, target, depth + 1) || self.reaches(&p.1, target, depth + 1),
            _ => false,
        }
    }

    /// an expression denoting a vector through some access path, with its id
    fn vec_path(&mut self) -> Option<(Sx, VecId, Vec<String>)> {
        let mut options: Vec<(Sx, VecId, Vec<String>)> = vec![];
        for n in self.names_with(Role::Vec) {
            if let Some(id) = self.vec_id(&n) {
                options.push((sym(&n), id, vec![n.clone()]));
                // through an element holding a vector
                for (i, x) in self.m.vectors[id].items.iter().enumerate() {
                    if let RV::Vector(inner) = x {
                        options.push((
                            call("vector-ref", vec![sym(&n), int(i as i64)]),
                            *inner,
                            vec![n.clone()],
                        ));
                    }
                }
            }
        }
        for n in self.names_with(Role::VecList) {
            if let Some(v) = self.m.root.lookup(&n) {
                let mut cur = v;
                let mut path = sym(&n);
                for _ in 0..4 {
                    match cur.clone() {
                        RV::Pair(p) => {
                            if let RV::Vector(id) = &p.0 {
                                options.push((call("car", vec![path.clone()]), *id, vec![n.clone()]));
                            }
                            path = call("cdr", vec![path]);
                            cur = p.1.clone();
                        }
                        _ => break,
                    }
                }
            }
        }
        if options.is_empty() {
            None
        } else {
            let i = self.rng.upto(options.len());
            Some(options.swap_remove(i))
        }
    }

    fn distinct_vectors(&self) -> usize {
        self.m.vectors.iter().filter(|v| v.mutable).count()
    }

    // ------------------------------------------------------------ store ops

    fn op(&mut self, which: usize) -> bool {
        match which {
            0 => {
                // define / redefine an integer global
                let name = if self.rng.chance(1, 3) {
                    self.pick_name(Role::Int)
                } else {
                    None
                }
                .unwrap_or_else(|| {
                    // sometimes a global that carries a name the helper procedures use for their
                    // parameters and internal definitions: those stay bindings of their own
                    let pool: Vec<&str> = ["n", "k", "total", "late", "step", "get", "first", "inner"]
                        .into_iter()
                        .filter(|p| !self.roles.contains_key(*p))
                        .collect();
                    if !pool.is_empty() && self.rng.chance(1, 4) {
                        self.rng.pick(&pool).to_string()
                    } else {
                        self.fresh("g")
                    }
                });
                let (e, roots) = self.int_expr(2);
                self.roles.insert(name.clone(), Role::Int);
                let mut r = roots;
                r.push(name.clone());
                self.emit(list(vec![sym("define"), sym(&name), e]), "def-int", r, true);
                true
            }
            1 => {
                let Some(name) = self.pick_name(Role::Int) else { return false };
                let (e, mut roots) = self.int_expr(2);
                roots.push(name.clone());
                self.emit(list(vec![sym("set!"), sym(&name), e]), "set-int", roots, true);
                true
            }
            2 => {
                // assignment through a setter procedure closed over the root frame
                let Some(name) = self.pick_name(Role::Int) else { return false };
                let setter = format!("set-{}!", name);
                if !self.helpers.contains(&setter) {
                    self.helpers.insert(setter.clone());
                    self.emit(
                        list(vec![
                            sym("define"),
                            list(vec![sym(&setter), sym("v")]),
                            list(vec![sym("set!"), sym(&name), sym("v")]),
                            sym("v"),
                        ]),
                        "def-setter",
                        vec![],
                        false,
                    );
                }
                let (e, mut roots) = self.int_expr(1);
                roots.push(setter.clone());
                self.emit(call(&setter, vec![e]), "set-via-proc", roots, true);
                true
            }
            3 => {
                let Some(name) = self.pick_name(Role::Int) else { return false };
                self.emit(sym(&name), "read-int", vec![name], false);
                true
            }
            4 => {
                if self.names_with(Role::Counter).len() + self.names_with(Role::Acc).len()
                    >= self.max_closures
                {
                    return false;
                }
                self.need("make-counter");
                let name = self.fresh("c");
                let start = self.small_lit();
                self.roles.insert(name.clone(), Role::Counter);
                self.emit(
                    list(vec![sym("define"), sym(&name), call("make-counter", vec![int(start)])]),
                    "mk-counter",
                    vec![name],
                    true,
                );
                true
            }
            5 => {
                let Some(name) = self.pick_name(Role::Counter) else { return false };
                let v = self.rng.upto(4);
                let (sx, kind) = match v {
                    0 | 1 => (list(vec![sym(&name)]), "call-counter"),
                    2 => {
                        self.need("twice");
                        (call("twice", vec![sym(&name)]), "twice-counter")
                    }
                    _ => (
                        call("apply", vec![sym(&name), quote(list(vec![]))]),
                        "apply-counter",
                    ),
                };
                self.emit(sx, kind, vec![name], true);
                true
            }
            6 => {
                // alias any handle under a new name
                let all: Vec<(String, Role)> = self
                    .roles
                    .iter()
                    .filter(|(_, r)| **r != Role::Int)
                    .map(|(n, r)| (n.clone(), *r))
                    .collect();
                if all.is_empty() {
                    return false;
                }
                let (src, role) = self.rng.pick(&all).clone();
                let name = self.fresh("al");
                self.roles.insert(name.clone(), role);
                self.emit(
                    list(vec![sym("define"), sym(&name), sym(&src)]),
                    "alias",
                    vec![src, name],
                    false,
                );
                true
            }
            7 => {
                if self.names_with(Role::Counter).len() + self.names_with(Role::Acc).len()
                    >= self.max_closures
                {
                    return false;
                }
                self.need("make-acc");
                let name = self.fresh("a");
                let start = self.small_lit();
                self.roles.insert(name.clone(), Role::Acc);
                self.emit(
                    list(vec![sym("define"), sym(&name), call("make-acc", vec![int(start)])]),
                    "mk-acc",
                    vec![name],
                    true,
                );
                true
            }
            8 => {
                let Some(name) = self.pick_name(Role::Acc) else { return false };
                let d = self.small_lit();
                let v = self.rng.upto(4);
                let (sx, kind) = match v {
                    0 | 1 => (call(&name, vec![int(d)]), "call-acc"),
                    2 => (
                        call(
                            "apply",
                            vec![sym(&name), call("cons", vec![int(d), quote(list(vec![]))])],
                        ),
                        "apply-acc",
                    ),
                    _ => {
                        self.need("each");
                        let items: Vec<Sx> = (0..self.rng.range(1, 4)).map(|_| int(self.small_lit())).collect();
                        (
                            call("each", vec![sym(&name), quote(list(items))]),
                            "each-acc",
                        )
                    }
                };
                self.emit(sx, kind, vec![name], true);
                true
            }
            9 => {
                if self.names_with(Role::Cell).len() >= 3 {
                    return false;
                }
                self.need("make-cell");
                let name = self.fresh("p");
                let (e, mut roots) = self.int_expr(1);
                roots.push(name.clone());
                self.roles.insert(name.clone(), Role::Cell);
                self.emit(
                    list(vec![sym("define"), sym(&name), call("make-cell", vec![e])]),
                    "mk-cell",
                    roots,
                    true,
                );
                true
            }
            10 => {
                let Some(name) = self.pick_name(Role::Cell) else { return false };
                if self.rng.chance(1, 2) {
                    self.emit(
                        list(vec![call("car", vec![sym(&name)])]),
                        "cell-get",
                        vec![name],
                        false,
                    );
                } else {
                    let (e, mut roots) = self.int_expr(1);
                    roots.push(name.clone());
                    self.emit(
                        list(vec![call("car", vec![call("cdr", vec![sym(&name)])]), e]),
                        "cell-set",
                        roots,
                        true,
                    );
                }
                true
            }
            11 => {
                // a parameter shadows a global of the same name; assigning it must not touch the global
                let Some(name) = self.pick_name(Role::Int) else { return false };
                let helper = format!("sh-{}", name);
                if !self.helpers.contains(&helper) {
                    self.helpers.insert(helper.clone());
                    self.emit(
                        list(vec![
                            sym("define"),
                            list(vec![sym(&helper), sym(&name)]),
                            list(vec![sym("set!"), sym(&name), call("+", vec![sym(&name), int(100)])]),
                            sym(&name),
                        ]),
                        "def-shadow-param",
                        vec![],
                        false,
                    );
                }
                let d = self.small_lit();
                self.emit(call(&helper, vec![int(d)]), "shadow-param", vec![helper], false);
                true
            }
            12 => {
                // an internal definition shadows a global; assigning it must not touch the global
                let Some(name) = self.pick_name(Role::Int) else { return false };
                let helper = format!("si-{}", name);
                if !self.helpers.contains(&helper) {
                    self.helpers.insert(helper.clone());
                    self.emit(
                        list(vec![
                            sym("define"),
                            list(vec![sym(&helper), sym("k")]),
                            list(vec![sym("define"), sym(&name), sym("k")]),
                            list(vec![sym("set!"), sym(&name), call("+", vec![sym(&name), int(1)])]),
                            sym(&name),
                        ]),
                        "def-shadow-internal",
                        vec![],
                        false,
                    );
                }
                let d = self.small_lit();
                self.emit(call(&helper, vec![int(d)]), "shadow-internal", vec![helper], false);
                true
            }
            13 => {
                // closure over a parameter that writes a global
                let Some(name) = self.pick_name(Role::Int) else { return false };
                if self.names_with(Role::Adder).len() >= 3 {
                    let Some(ad) = self.pick_name(Role::Adder) else { return false };
                    self.emit(list(vec![sym(&ad)]), "call-adder", vec![ad], true);
                    return true;
                }
                let maker = format!("make-adder-{}", name);
                if !self.helpers.contains(&maker) {
                    self.helpers.insert(maker.clone());
                    self.emit(
                        list(vec![
                            sym("define"),
                            list(vec![sym(&maker), sym("k")]),
                            list(vec![
                                sym("lambda"),
                                list(vec![]),
                                list(vec![sym("set!"), sym(&name), call("+", vec![sym(&name), sym("k")])]),
                                sym(&name),
                            ]),
                        ]),
                        "def-adder-maker",
                        vec![],
                        false,
                    );
                }
                let ad = self.fresh("ad");
                let k = self.small_lit();
                self.roles.insert(ad.clone(), Role::Adder);
                self.emit(
                    list(vec![sym("define"), sym(&ad), call(&maker, vec![int(k)])]),
                    "mk-adder",
                    vec![ad.clone()],
                    false,
                );
                self.emit(list(vec![sym(&ad)]), "call-adder", vec![ad, name], true);
                true
            }
            14 => {
                // new vector
                if self.distinct_vectors() >= self.max_vectors {
                    return false;
                }
                let name = self.fresh("v");
                let n = self.rng.range(1, 4) as usize;
                let v = self.rng.upto(5);
                let mut roots = vec![name.clone()];
                let sx = match v {
                    0 | 1 if self.rng.chance(1, 3) => {
                        // deliberately alike: distinct objects with equal contents
                        call("vector", vec![int(0), int(0)])
                    }
                    0 | 1 => {
                        let mut items = vec![];
                        for _ in 0..n {
                            if self.rng.chance(1, 4) {
                                if let Some(o) = self.pick_name(Role::Vec) {
                                    roots.push(o.clone());
                                    items.push(sym(&o));
                                    continue;
                                }
                            }
                            let (e, r) = self.int_expr(1);
                            roots.extend(r);
                            items.push(e);
                        }
                        call("vector", items)
                    }
                    2 => {
                        let fill = if self.rng.chance(1, 2) {
                            match self.pick_name(Role::Vec) {
                                Some(o) => {
                                    roots.push(o.clone());
                                    sym(&o)
                                }
                                None => int(self.small_lit()),
                            }
                        } else {
                            int(self.small_lit())
                        };
                        call("make-vector", vec![int(n as i64), fill])
                    }
                    3 => Sx::Vector((0..n).map(|_| int(self.small_lit())).collect()),
                    _ => quote(Sx::Vector((0..n).map(|_| int(self.small_lit())).collect())),
                };
                self.roles.insert(name.clone(), Role::Vec);
                self.emit(list(vec![sym("define"), sym(&name), sx]), "mk-vector", roots, true);
                true
            }
            15 => {
                // vector-set! through some path, possibly storing a vector (no cycles)
                let Some((path, id, mut roots)) = self.vec_path() else { return false };
                let len = self.m.vectors[id].items.len();
                if len == 0 {
                    return false;
                }
                let i = self.rng.upto(len) as i64;
                let mutable = self.m.vectors[id].mutable;
                let val: Sx = if mutable && self.rng.chance(1, 5) {
                    // store another vector, unless that would close a cycle
                    match self.pick_name(Role::Vec) {
                        Some(o) => {
                            let ov = self.m.root.lookup(&o).unwrap();
                            if self.reaches(&ov, id, 0) {
                                int(self.small_lit())
                            } else {
                                roots.push(o.clone());
                                sym(&o)
                            }
                        }
                        None => int(self.small_lit()),
                    }
                } else {
                    let (e, r) = self.int_expr(1);
                    roots.extend(r);
                    e
                };
                let via = self.rng.upto(3);
                let (sx, kind) = match via {
                    0 | 1 => (
                        call("vector-set!", vec![path, int(i), val]),
                        if mutable { "vset-direct" } else { "vset-literal" },
                    ),
                    _ => {
                        self.need("vset!");
                        (
                            call("vset!", vec![path, int(i), val]),
                            if mutable { "vset-arg" } else { "vset-literal-arg" },
                        )
                    }
                };
                self.emit(sx, kind, roots, true);
                true
            }
            16 => {
                // read through some path
                let Some((path, id, roots)) = self.vec_path() else { return false };
                let len = self.m.vectors[id].items.len();
                let v = self.rng.upto(4);
                let (sx, kind) = match v {
                    0 if len > 0 => (
                        call("vector-ref", vec![path, int(self.rng.upto(len) as i64)]),
                        "vref",
                    ),
                    1 if len > 0 => {
                        self.need("vget");
                        (call("vget", vec![path, int(self.rng.upto(len) as i64)]), "vref-arg")
                    }
                    2 => (call("vector-length", vec![path]), "vlen"),
                    _ => (path, "vwhole"),
                };
                self.emit(sx, kind, roots, false);
                true
            }
            17 => {
                // capture a vector in a closure
                let Some((path, _id, mut roots)) = self.vec_path() else { return false };
                if self.names_with(Role::VSetter).len() + self.names_with(Role::VGetter).len() >= 4 {
                    return false;
                }
                if self.rng.chance(1, 2) {
                    self.need("make-vsetter");
                    let name = self.fresh("vs");
                    self.roles.insert(name.clone(), Role::VSetter);
                    roots.push(name.clone());
                    self.emit(
                        list(vec![sym("define"), sym(&name), call("make-vsetter", vec![path])]),
                        "mk-vsetter",
                        roots,
                        false,
                    );
                } else {
                    self.need("make-vgetter");
                    let name = self.fresh("vg");
                    self.roles.insert(name.clone(), Role::VGetter);
                    roots.push(name.clone());
                    self.emit(
                        list(vec![sym("define"), sym(&name), call("make-vgetter", vec![path])]),
                        "mk-vgetter",
                        roots,
                        false,
                    );
                }
                true
            }
            18 => {
                // use a captured reference; the index must fit the captured vector
                let setters = self.names_with(Role::VSetter);
                let getters = self.names_with(Role::VGetter);
                let mut all: Vec<(String, bool)> = setters.into_iter().map(|n| (n, true)).collect();
                all.extend(getters.into_iter().map(|n| (n, false)));
                if all.is_empty() {
                    return false;
                }
                let (name, is_setter) = self.rng.pick(&all).clone();
                let captured = match self.m.root.lookup(&name) {
                    Some(RV::Closure(c)) => c.env.lookup("v"),
                    _ => None,
                };
                let Some(RV::Vector(id)) = captured else { return false };
                let len = self.m.vectors[id].items.len();
                if len == 0 {
                    return false;
                }
                let i = self.rng.upto(len) as i64;
                if is_setter {
                    let lit = self.small_lit();
                    let kind = if self.m.vectors[id].mutable { "vset-captured" } else { "vset-literal-captured" };
                    self.emit(call(&name, vec![int(i), int(lit)]), kind, vec![name], true);
                } else {
                    self.emit(call(&name, vec![int(i)]), "vref-captured", vec![name], false);
                }
                true
            }
            19 => {
                // a list holding vectors
                let vs = self.names_with(Role::Vec);
                if vs.is_empty() || self.names_with(Role::VecList).len() >= 2 {
                    return false;
                }
                let n = self.rng.range(1, 3);
                let mut roots = vec![];
                let mut sx = quote(list(vec![]));
                for _ in 0..n {
                    let o = self.rng.pick(&vs).clone();
                    roots.push(o.clone());
                    sx = call("cons", vec![sym(&o), sx]);
                }
                let name = self.fresh("l");
                self.roles.insert(name.clone(), Role::VecList);
                roots.push(name.clone());
                self.emit(list(vec![sym("define"), sym(&name), sx]), "mk-veclist", roots, false);
                true
            }
            20 => {
                // identity probe between two paths
                let Some((p1, id1, mut r1)) = self.vec_path() else { return false };
                let Some((p2, id2, r2)) = self.vec_path() else { return false };
                // identity of two separately evaluated literals is left open
                if !self.m.vectors[id1].mutable && !self.m.vectors[id2].mutable && id1 != id2 {
                    return false;
                }
                r1.extend(r2);
                self.emit(call("eq?", vec![p1, p2]), "eq-probe", r1, false);
                true
            }
            21 => {
                // name an element that is itself a vector
                let Some((path, _id, mut roots)) = self.vec_path() else { return false };
                if matches!(path, Sx::Sym(_)) || self.names_with(Role::Vec).len() >= 8 {
                    return false;
                }
                let name = self.fresh("v");
                self.roles.insert(name.clone(), Role::Vec);
                roots.push(name.clone());
                self.emit(list(vec![sym("define"), sym(&name), path]), "alias-element", roots, false);
                true
            }
            22 => {
                // closures created at different depths of one recursion: fresh bindings per call
                if self.names_with(Role::CounterList).len() >= 2 {
                    return false;
                }
                let name = self.fresh("cl");
                let k = self.rng.range(2, 4);
                self.roles.insert(name.clone(), Role::CounterList);
                if self.rng.chance(1, 3) {
                    self.need("map-collect");
                    let items: Vec<Sx> = (1..=k).map(|i| int(i * 7)).collect();
                    self.emit(
                        list(vec![sym("define"), sym(&name), call("map-collect", vec![quote(list(items))])]),
                        "mk-counter-list-through-map",
                        vec![name],
                        true,
                    );
                    return true;
                }
                self.need("collect");
                self.emit(
                    list(vec![sym("define"), sym(&name), call("collect", vec![int(k)])]),
                    "mk-counter-list",
                    vec![name],
                    true,
                );
                true
            }
            23 => {
                let Some(name) = self.pick_name(Role::CounterList) else { return false };
                let len = match self.m.root.lookup(&name) {
                    Some(v) => crate::refint::list_to_vec(&v).map(|v| v.len()).unwrap_or(0),
                    None => 0,
                };
                if len == 0 {
                    return false;
                }
                let i = self.rng.upto(len);
                let mut path = sym(&name);
                for _ in 0..i {
                    path = call("cdr", vec![path]);
                }
                let elem = call("car", vec![path]);
                if self.rng.chance(1, 4) && self.names_with(Role::Counter).len() < 8 {
                    let c = self.fresh("c");
                    self.roles.insert(c.clone(), Role::Counter);
                    self.emit(list(vec![sym("define"), sym(&c), elem]), "alias-list-counter", vec![name, c], false);
                } else {
                    self.emit(list(vec![elem]), "call-list-counter", vec![name], true);
                }
                true
            }
            24 => {
                // closures made by ONE call share its binding; those of another call do not
                let nests = self.names_with(Role::Nest);
                if nests.len() < 2 && self.rng.chance(1, 2) {
                    self.need("make-nest");
                    let name = self.fresh("nf");
                    self.roles.insert(name.clone(), Role::Nest);
                    let start = self.small_lit();
                    self.emit(
                        list(vec![sym("define"), sym(&name), call("make-nest", vec![int(start)])]),
                        "mk-nest",
                        vec![name],
                        false,
                    );
                    return true;
                }
                let Some(nf) = self.pick_name(Role::Nest) else { return false };
                if self.names_with(Role::Counter).len() >= 8 {
                    return false;
                }
                let c = self.fresh("c");
                self.roles.insert(c.clone(), Role::Counter);
                self.emit(list(vec![sym("define"), sym(&c), list(vec![sym(&nf)])]), "counter-from-nest", vec![nf, c], false);
                true
            }
            25 => {
                // a write whose value comes from one effectful call, through an argument alias
                let Some(cn) = self.pick_name(Role::Counter) else { return false };
                let Some((path, id, mut roots)) = self.vec_path() else { return false };
                if !self.m.vectors[id].mutable || self.m.vectors[id].items.is_empty() {
                    return false;
                }
                self.need("vset!");
                let i = self.rng.upto(self.m.vectors[id].items.len()) as i64;
                roots.push(cn.clone());
                self.emit(
                    call("vset!", vec![path, int(i), list(vec![sym(&cn)])]),
                    "vset-from-counter",
                    roots,
                    true,
                );
                true
            }
            26 => {
                let Some((path, id, roots)) = self.vec_path() else { return false };
                let len = self.m.vectors[id].items.len();
                if !self.m.vectors[id].mutable || len < 2 {
                    return false;
                }
                if self.rng.chance(1, 2) {
                    self.need("vswap!");
                    let i = self.rng.upto(len) as i64;
                    let j = self.rng.upto(len) as i64;
                    self.emit(call("vswap!", vec![path, int(i), int(j)]), "vswap", roots, true);
                } else {
                    self.need("vfill!");
                    let from = self.rng.upto(len) as i64;
                    let x = self.small_lit();
                    self.emit(call("vfill!", vec![path, int(from), int(x)]), "vfill", roots, true);
                }
                true
            }
            27 => {
                // closures created in successive iterations of a TAIL-recursive loop capture
                // the loop's own parameter: every iteration has its own binding
                if self.names_with(Role::CounterList).len() >= 3 {
                    return false;
                }
                let which = if self.rng.chance(1, 3) { "loop-collect-a" } else { "loop-collect" };
                self.need(which);
                let name = self.fresh("cl");
                let k = self.rng.range(2, 5);
                self.roles.insert(name.clone(), Role::CounterList);
                self.emit(
                    list(vec![sym("define"), sym(&name), call(which, vec![int(k), quote(list(vec![]))])]),
                    "mk-tail-loop-closures",
                    vec![name],
                    true,
                );
                true
            }
            28 => {
                // re-point a variable at another object of the same kind; what the two hold
                // may well look alike at this moment
                let role = *self.rng.pick(HANDLE_ROLES);
                let names = self.names_with(role);
                if names.len() < 2 {
                    return false;
                }
                let a = self.rng.pick(&names).clone();
                let b = self.rng.pick(&names).clone();
                if a == b {
                    return false;
                }
                self.emit(
                    list(vec![sym("set!"), sym(&a), sym(&b)]),
                    "set-handle",
                    vec![a, b],
                    true,
                );
                true
            }
            31 => {
                // a PARAMETERLESS procedure with an internal definition: the definition belongs
                // to the call, not to the frame the procedure was created in
                if self.rng.chance(1, 2) {
                    let Some(name) = self.pick_name(Role::Int) else { return false };
                    let helper = format!("si0-{}", name);
                    if !self.helpers.contains(&helper) {
                        self.helpers.insert(helper.clone());
                        let k = self.small_lit();
                        self.emit(
                            list(vec![
                                sym("define"),
                                list(vec![sym(&helper)]),
                                list(vec![sym("define"), sym(&name), int(k)]),
                                list(vec![sym("set!"), sym(&name), call("+", vec![sym(&name), int(1)])]),
                                sym(&name),
                            ]),
                            "def-shadow-internal-noargs",
                            vec![],
                            false,
                        );
                    }
                    self.emit(list(vec![sym(&helper)]), "shadow-internal-noargs", vec![helper, name], false);
                } else {
                    if self.names_with(Role::Counter).len() >= 8 {
                        return false;
                    }
                    self.need("make-ctr0");
                    let c = self.fresh("c");
                    self.roles.insert(c.clone(), Role::Counter);
                    self.emit(
                        list(vec![sym("define"), sym(&c), list(vec![sym("make-ctr0")])]),
                        "mk-counter-noargs",
                        vec![c],
                        true,
                    );
                }
                true
            }
            32 => {
                // closures of ONE lambda text that tail-call each other: each runs in its own frame
                if self.names_with(Role::Counter).len() >= 8 {
                    return false;
                }
                self.need("make-chain");
                let next = if self.rng.chance(3, 4) { self.pick_name(Role::Counter) } else { None };
                let c = self.fresh("c");
                let k = self.small_lit();
                let mut roots = vec![c.clone()];
                let next_sx = match next {
                    Some(n) => {
                        roots.push(n.clone());
                        sym(&n)
                    }
                    None => Sx::Bool(false),
                };
                self.roles.insert(c.clone(), Role::Counter);
                self.emit(
                    list(vec![sym("define"), sym(&c), call("make-chain", vec![int(k), next_sx])]),
                    "mk-chained-closure",
                    roots,
                    true,
                );
                true
            }
            33 => {
                // literal vectors nested inside quoted data are literals too
                if self.names_with(Role::VecList).len() >= 3 || self.names_with(Role::Vec).len() >= 8 {
                    return false;
                }
                if self.rng.chance(1, 2) {
                    let name = self.fresh("l");
                    self.roles.insert(name.clone(), Role::VecList);
                    let a = self.small_lit();
                    let b = self.small_lit();
                    self.emit(
                        list(vec![
                            sym("define"),
                            sym(&name),
                            quote(list(vec![Sx::Vector(vec![int(a), int(b)]), Sx::Vector(vec![int(b)])])),
                        ]),
                        "mk-quoted-list-of-literal-vectors",
                        vec![name],
                        false,
                    );
                } else {
                    let name = self.fresh("v");
                    self.roles.insert(name.clone(), Role::Vec);
                    let a = self.small_lit();
                    self.emit(
                        list(vec![
                            sym("define"),
                            sym(&name),
                            quote(Sx::Vector(vec![Sx::Vector(vec![int(a), int(a + 1)]), int(5)])),
                        ]),
                        "mk-literal-vector-in-literal-vector",
                        vec![name],
                        true,
                    );
                }
                true
            }
            34 => {
                let vs = self.names_with(Role::Vec);
                if vs.is_empty() || self.names_with(Role::VecList).len() >= 4 {
                    return false;
                }
                let a = self.rng.pick(&vs).clone();
                let b = self.rng.pick(&vs).clone();
                let name = self.fresh("l");
                let v = self.rng.upto(3);
                let sx = match v {
                    0 => {
                        self.need("rest-id");
                        call("rest-id", vec![sym(&a), sym(&b)])
                    }
                    1 => {
                        self.need("rest-id");
                        call("apply", vec![sym("rest-id"), sym(&a), call("cons", vec![sym(&b), quote(list(vec![]))])])
                    }
                    _ => {
                        self.need("pair-up");
                        call("apply", vec![sym("pair-up"), call("cons", vec![sym(&a), call("cons", vec![sym(&b), quote(list(vec![]))])])])
                    }
                };
                self.roles.insert(name.clone(), Role::VecList);
                self.emit(list(vec![sym("define"), sym(&name), sx]), "mk-veclist-through-rest-args", vec![a, b, name], false);
                true
            }
            35 => {
                // internal definitions of one call share one frame: a closure defined internally
                // and the body see the same variable
                if self.names_with(Role::Counter).len() >= 8 {
                    return false;
                }
                self.need("make-ictr");
                let c = self.fresh("c");
                let k = self.small_lit();
                self.roles.insert(c.clone(), Role::Counter);
                self.emit(
                    list(vec![sym("define"), sym(&c), call("make-ictr", vec![int(k)])]),
                    "mk-counter-internal-defines",
                    vec![c],
                    true,
                );
                true
            }
            36 => {
                // a vector stored into one of its own slots is an alias of itself
                let cyc = self.names_with(Role::CycVec);
                if cyc.is_empty() || self.rng.chance(1, 3) {
                    if cyc.len() >= 2 {
                        return false;
                    }
                    // make a fresh one: never an existing vector that other paths print or store
                    let name = self.fresh("cy");
                    self.roles.insert(name.clone(), Role::CycVec);
                    let mid = self.small_lit_pure();
                    self.emit(
                        list(vec![sym("define"), sym(&name), call("vector", vec![int(0), int(mid), int(7)])]),
                        "mk-vector-for-self-reference",
                        vec![name.clone()],
                        true,
                    );
                    self.emit(
                        call("vector-set!", vec![sym(&name), int(0), sym(&name)]),
                        "vset-self",
                        vec![name],
                        true,
                    );
                    return true;
                }
                let name = self.rng.pick(&cyc).clone();
                let j = self.rng.range(1, 2);
                let v = self.rng.upto(3);
                let lit = self.small_lit();
                let (sx, kind, w) = match v {
                    0 => (
                        call("vector-set!", vec![call("vector-ref", vec![sym(&name), int(0)]), int(j), int(lit)]),
                        "vset-through-self-slot",
                        true,
                    ),
                    1 => (call("vector-ref", vec![sym(&name), int(j)]), "vref-cyclic", false),
                    _ => (
                        call("vector-ref", vec![call("vector-ref", vec![call("vector-ref", vec![sym(&name), int(0)]), int(0)]), int(j)]),
                        "vref-through-self-slot",
                        false,
                    ),
                };
                self.emit(sx, kind, vec![name], w);
                true
            }
            39 => {
                // counters whose state lives in bindings made by internal defines evaluated late,
                // by let, or by let* binding one name twice
                if self.names_with(Role::Counter).len() >= 8 {
                    return false;
                }
                // ... or by the bodies of the bundled derived forms (begin, cond, when, or, and)
                let which = *self.rng.pick(&[
                    "make-late", "make-lctr", "make-l2", "make-l3", "make-pctr", "make-vc", "make-vv", "make-bctr", "make-cctr", "make-wctr", "make-octr", "make-actr",
                ]);
                self.need(which);
                let c = self.fresh("c");
                self.roles.insert(c.clone(), Role::Counter);
                let sx = if which == "make-late" {
                    list(vec![sym(which)])
                } else if which == "make-vc" {
                    call("cdr", vec![call(which, vec![int(self.small_lit())])])
                } else if which == "make-vv" {
                    call("vector-ref", vec![call(which, vec![int(self.small_lit())]), int(1)])
                } else {
                    let k = self.small_lit().abs();
                    call(which, vec![int(k)])
                };
                self.emit(list(vec![sym("define"), sym(&c), sx]), &format!("mk-counter-{}", which), vec![c], true);
                true
            }
            42 => {
                // a procedure-valued global that long-lived closures call: after it is assigned
                // (from the top level) they call the new procedure
                let counters = self.names_with(Role::Counter);
                if counters.is_empty() {
                    return false;
                }
                if !self.hook_defined {
                    let c = self.rng.pick(&counters).clone();
                    self.emit(list(vec![sym("define"), sym("hook"), sym(&c)]), "define-procedure-hook", vec![c, "hook".into()], false);
                    self.hook_defined = true;
                    self.need("make-caller");
                    let name = self.fresh("caller");
                    let k = self.small_lit_pure();
                    self.emit(list(vec![sym("define"), sym(&name), call("make-caller", vec![int(k)])]), "mk-caller-of-hook", vec![name.clone()], false);
                    self.callers.push(name);
                    return true;
                }
                match self.rng.upto(4) {
                    0 => {
                        let c = self.rng.pick(&counters).clone();
                        self.emit(list(vec![sym("set!"), sym("hook"), sym(&c)]), "repoint-procedure-hook", vec![c, "hook".into()], true);
                    }
                    1 if self.callers.len() < 3 => {
                        self.need("make-caller");
                        let name = self.fresh("caller");
                        let k = self.small_lit_pure();
                        self.emit(list(vec![sym("define"), sym(&name), call("make-caller", vec![int(k)])]), "mk-caller-of-hook", vec![name.clone()], false);
                        self.callers.push(name);
                    }
                    _ => {
                        let name = self.rng.pick(&self.callers.clone()).clone();
                        self.emit(list(vec![sym(&name)]), "call-through-hook", vec![name, "hook".into()], true);
                    }
                }
                true
            }
            43 => {
                // a procedure bound by define is reached through its NAME each time: assigning
                // the name changes what its own recursive calls and its other aliases' calls reach
                if self.rec_made >= 2 {
                    return false;
                }
                self.rec_made += 1;
                let n = self.rec_made;
                let k = self.small_lit_pure();
                if self.rng.chance(1, 2) {
                    let rec = format!("rec{}", n);
                    let old = format!("oldrec{}", n);
                    self.emit_text(&format!("(define ({r} n) (if (= n 0) 0 (+ 1 ({r} (- n 1)))))", r = rec), "define-recursive");
                    self.emit_text(&format!("(define {} {})", old, rec), "alias-recursive");
                    self.emit_text(&format!("({} 3)", old), "call-recursive-alias");
                    self.emit_text(&format!("(set! {} (lambda (n) {}))", rec, k), "assign-recursive-name");
                    self.emit_text(&format!("({} 3)", old), "call-recursive-alias");
                    self.emit_text(&format!("({} 3)", rec), "call-recursive-name");
                } else {
                    let once = format!("once{}", n);
                    self.emit_text(&format!("(define ({o}) (set! {o} (lambda () {k})) 'first)", o = once, k = k), "define-self-replacing");
                    self.emit_text(&format!("({})", once), "call-self-replacing");
                    self.emit_text(&format!("({})", once), "call-self-replacing");
                }
                true
            }
            44 => {
                // local bindings that shadow top-level procedures, called in tail position
                self.need("f0");
                self.need("f2");
                let k = self.small_lit();
                if self.rng.chance(1, 2) {
                    self.need("call-f2");
                    let body = if self.rng.chance(1, 2) { call("-", vec![sym("p"), sym("q")]) } else { call("*", vec![sym("p"), int(10)]) };
                    self.emit(
                        call("call-f2", vec![list(vec![sym("lambda"), list(vec![sym("p"), sym("q")]), body]), int(k)]),
                        "tail-call-through-shadowing-parameter",
                        vec![],
                        false,
                    );
                } else {
                    self.need("shadow-f0");
                    self.emit(call("shadow-f0", vec![int(k)]), "tail-call-of-shadowing-internal-definition", vec![], false);
                }
                true
            }
            45 => {
                // eqv? on two closures: what it answers is left open, that it answers is not
                let cs = self.names_with(Role::Counter);
                if cs.len() < 2 {
                    return false;
                }
                let a = self.rng.pick(&cs).clone();
                let b = self.rng.pick(&cs).clone();
                self.forms.push(FormRec { text: format!("(eqv? {} {})", a, b), kind: "unjudged:eqv-on-closures".to_string(), roots: vec![], write: false });
                true
            }
            41 => {
                // a global integer defined again: still one binding, which later assignments reach
                let Some(g) = self.pick_name(Role::Int) else { return false };
                let k = self.small_lit();
                self.emit(list(vec![sym("define"), sym(&g), int(k)]), "redefine-int", vec![g], true);
                true
            }
            40 => {
                // a write placed inside a bundled derived form: the body of begin / when / unless /
                // cond / and / or is evaluated in the scope it is written in
                let g = self.ensure_int();
                let k = self.small_lit();
                let write: Sx = if self.rng.chance(1, 2) {
                    list(vec![sym("set!"), sym(&g), int(k)])
                } else {
                    let vn = self.ensure_vec();
                    let len = self.vec_id(&vn).map(|id| self.m.vectors[id].items.len()).unwrap_or(0);
                    if len == 0 || !self.vec_id(&vn).map(|id| self.m.vectors[id].mutable).unwrap_or(false) {
                        list(vec![sym("set!"), sym(&g), int(k)])
                    } else {
                        call("vector-set!", vec![sym(&vn), int(self.rng.upto(len) as i64), int(k)])
                    }
                };
                let roots: Vec<String> = match &write {
                    Sx::List(w) if w[0].as_sym() == Some("vector-set!") => vec![w[1].as_sym().unwrap().to_string()],
                    _ => vec![g.clone()],
                };
                let read = sym(&g);
                let shape = self.rng.upto(8);
                let (sx, kind) = match shape {
                    0 => (list(vec![sym("begin"), write, read]), "write-in-begin"),
                    1 => (list(vec![sym("when"), call("=", vec![int(1), int(1)]), write, read]), "write-in-when"),
                    2 => (list(vec![sym("unless"), call("=", vec![int(1), int(2)]), write, read]), "write-in-unless"),
                    3 => (
                        list(vec![
                            sym("cond"),
                            list(vec![call("=", vec![int(1), int(2)]), int(0)]),
                            list(vec![call("=", vec![int(1), int(1)]), write, read]),
                            list(vec![sym("else"), int(1)]),
                        ]),
                        "write-in-cond-clause",
                    ),
                    4 => (
                        list(vec![sym("cond"), list(vec![Sx::Bool(false), int(0)]), list(vec![sym("else"), write, read])]),
                        "write-in-cond-else",
                    ),
                    5 => (list(vec![sym("and"), int(1), list(vec![sym("begin"), write, int(2)]), read]), "write-in-and"),
                    6 => (list(vec![sym("or"), Sx::Bool(false), list(vec![sym("begin"), write, Sx::Bool(false)]), read]), "write-in-or"),
                    _ => (
                        // the value of the test handed to the receiver
                        list(vec![
                            sym("cond"),
                            list(vec![
                                list(vec![sym("begin"), write, read.clone()]),
                                sym("=>"),
                                list(vec![sym("lambda"), list(vec![sym("t")]), call("+", vec![sym("t"), read])]),
                            ]),
                            list(vec![sym("else"), int(0)]),
                        ]),
                        "write-in-cond-receiver",
                    ),
                };
                self.emit(sx, kind, roots, true);
                true
            }
            37 => {
                // every closure of a list called once, through the list walker
                let Some(name) = self.pick_name(Role::CounterList) else { return false };
                self.need("each");
                self.need("call-it");
                self.emit(call("each", vec![sym("call-it"), sym(&name)]), "each-over-closure-list", vec![name], true);
                true
            }
            38 => {
                // a container name is redefined: the old object lives on through its other aliases
                let role = if self.rng.chance(1, 2) { Role::VecList } else { Role::Vec };
                let names = self.names_with(role);
                if names.len() < 2 {
                    return false;
                }
                let name = self.rng.pick(&names).clone();
                let sx = if role == Role::Vec {
                    let k = self.small_lit();
                    call("vector", vec![int(k), int(k + 1)])
                } else {
                    // a fresh list over some existing vector
                    match self.pick_name(Role::Vec) {
                        Some(v) => call("cons", vec![sym(&v), quote(list(vec![]))]),
                        None => return false,
                    }
                };
                self.emit(list(vec![sym("define"), sym(&name), sx]), "redefine-container", vec![name], true);
                true
            }
            29 => {
                // a closure stored in a vector slot, then called through the slot
                let Some((path, id, mut roots)) = self.vec_path() else { return false };
                if !self.m.vectors[id].mutable || self.m.vectors[id].items.is_empty() {
                    return false;
                }
                let slots: Vec<usize> = self.m.vectors[id]
                    .items
                    .iter()
                    .enumerate()
                    .filter(|(_, x)| matches!(x, RV::Closure(c) if c.params.is_empty() && c.rest.is_none()))
                    .map(|(i, _)| i)
                    .collect();
                if !slots.is_empty() && self.rng.chance(2, 3) {
                    let i = *self.rng.pick(&slots) as i64;
                    self.emit(
                        list(vec![call("vector-ref", vec![path, int(i)])]),
                        "call-closure-in-vector",
                        roots,
                        true,
                    );
                    return true;
                }
                let Some(cn) = self.pick_name(Role::Counter) else { return false };
                let i = self.rng.upto(self.m.vectors[id].items.len()) as i64;
                roots.push(cn.clone());
                self.emit(
                    call("vector-set!", vec![path, int(i), sym(&cn)]),
                    "store-closure-in-vector",
                    roots,
                    true,
                );
                true
            }
            30 => {
                // a list of existing counters: the same closures under new paths
                let cs = self.names_with(Role::Counter);
                if cs.len() < 2 || self.names_with(Role::CounterList).len() >= 3 {
                    return false;
                }
                let mut sx = quote(list(vec![]));
                let mut roots = vec![];
                for _ in 0..self.rng.range(2, 3) {
                    let c = self.rng.pick(&cs).clone();
                    roots.push(c.clone());
                    sx = call("cons", vec![sym(&c), sx]);
                }
                let name = self.fresh("cl");
                self.roles.insert(name.clone(), Role::CounterList);
                roots.push(name.clone());
                self.emit(list(vec![sym("define"), sym(&name), sx]), "mk-list-of-counters", roots, false);
                true
            }
            _ => false,
        }
    }

    // ------------------------------------------------------------ fault transactions

    fn ensure_vec(&mut self) -> String {
        if let Some(n) = self.pick_name(Role::Vec) {
            if let Some(id) = self.vec_id(&n) {
                if self.m.vectors[id].mutable && !self.m.vectors[id].items.is_empty() {
                    return n;
                }
            }
        }
        let name = self.fresh("v");
        self.roles.insert(name.clone(), Role::Vec);
        self.emit(
            list(vec![sym("define"), sym(&name), call("vector", vec![int(1), int(2), int(3)])]),
            "mk-vector",
            vec![name.clone()],
            true,
        );
        name
    }
    fn ensure_int(&mut self) -> String {
        if let Some(n) = self.pick_name(Role::Int) {
            return n;
        }
        let name = self.fresh("g");
        self.roles.insert(name.clone(), Role::Int);
        self.emit(list(vec![sym("define"), sym(&name), int(5)]), "def-int", vec![name.clone()], true);
        name
    }

    /// a faulting expression of the given kind; second component: is it a procedure call form
    fn fault_expr(&mut self, kind: usize) -> (Sx, &'static str) {
        match kind {
            0 => {
                let g = self.ensure_int();
                let v = self.rng.upto(5);
                (
                    match v {
                        0 => list(vec![int(5), int(1)]),
                        1 => list(vec![sym(&g)]),
                        2 => list(vec![Sx::Str("s".into()), int(1)]),
                        3 => list(vec![Sx::Bool(true)]),
                        _ => list(vec![quote(sym("a")), int(1), int(2)]),
                    },
                    "not-procedure",
                )
            }
            1 => {
                self.need("f0");
                self.need("f2");
                self.need("fr");
                let v = self.rng.upto(22);
                let vn = self.ensure_vec();
                (
                    match v {
                        // a procedure applied where it is written
                        18 => list(vec![list(vec![sym("lambda"), list(vec![sym("a"), sym("b")]), call("+", vec![sym("a"), sym("b")])]), int(1), int(2), int(3)]),
                        19 => list(vec![list(vec![sym("lambda"), list(vec![sym("a")]), sym("a")])]),
                        20 => list(vec![list(vec![sym("lambda"), list(vec![]), int(1)]), int(1)]),
                        21 => list(vec![list(vec![sym("lambda"), Sx::Dotted(vec![sym("a"), sym("b")], Box::new(sym("r"))), sym("a")]), int(1)]),
                        9 => call("vector-set!", vec![sym(&vn), int(0)]),
                        10 => call("make-vector", vec![int(3)]),
                        11 => call("apply", vec![]),
                        12 => call("eq?", vec![int(1)]),
                        13 => call("vector-length", vec![]),
                        14 => call("cdr", vec![quote(list(vec![int(1)])), int(2)]),
                        15 => call("fr", vec![]),
                        16 => {
                            self.need("self-many");
                            call("self-many", vec![int(self.rng.range(1, 4))])
                        }
                        17 => {
                            self.need("self-few");
                            call("self-few", vec![int(self.rng.range(1, 4)), int(5)])
                        }
                        0 => call("f2", vec![int(1)]),
                        1 => call("f2", vec![int(1), int(2), int(3)]),
                        2 => call("fr", vec![int(1)]),
                        3 => call("f0", vec![int(1)]),
                        4 => call("car", vec![]),
                        5 => call("cons", vec![int(1)]),
                        6 => call("car", vec![quote(list(vec![int(1)])), int(2)]),
                        7 => call("-", vec![]),
                        _ => call("vector-ref", vec![sym(&vn), int(0), int(1)]),
                    },
                    "arity",
                )
            }
            2 => {
                let n = format!("nosuch-{}", self.rng.upto(50));
                if self.rng.chance(1, 3) {
                    (list(vec![sym(&n), int(1)]), "unbound-read")
                } else {
                    (sym(&n), "unbound-read")
                }
            }
            3 => {
                let n = format!("nosuch-{}", self.rng.upto(50));
                (list(vec![sym("set!"), sym(&n), int(1)]), "unbound-set")
            }
            4 => {
                let vn = self.ensure_vec();
                self.need("f0");
                self.need("fv");
                self.need("f2");
                let v = self.rng.upto(35);
                (
                    match v {
                        // what apply spreads must be a list: a pair chain that ends in something else is not
                        28 => call("apply", vec![sym("+"), call("cons", vec![int(1), int(2)])]),
                        29 => call("apply", vec![sym("fv"), call("cons", vec![int(1), call("cons", vec![int(2), int(3)])])]),
                        30 => call("apply", vec![sym("f2"), int(1), call("cons", vec![int(2), int(3)])]),
                        // the wrong-typed index is the vector itself, or holds it
                        33 => call("vector-set!", vec![sym(&vn), sym(&vn), int(0)]),
                        34 => call("vector-ref", vec![sym(&vn), call("list", vec![int(1), sym(&vn)])]),
                        31 => call("make-vector", vec![Sx::Str("3".into()), int(0)]),
                        32 => call("vector-length", vec![int(5)]),
                        // the wrong-typed argument comes after one that already decides the result
                        22 => call("*", vec![int(0), Sx::Str("s".into())]),
                        23 => call("*", vec![int(3), call("-", vec![int(2), int(2)]), quote(sym("x"))]),
                        24 => call("+", vec![int(0), quote(sym("a"))]),
                        25 => call("<", vec![int(2), int(1), quote(sym("a"))]),
                        26 => call("=", vec![int(1), int(2), Sx::Str("x".into())]),
                        27 => call(">=", vec![int(1), int(2), Sx::Bool(true)]),
                        0 => call("+", vec![int(1), quote(sym("a"))]),
                        1 => call("car", vec![int(5)]),
                        2 => call("vector-ref", vec![int(5), int(0)]),
                        3 => call("vector-length", vec![quote(list(vec![int(1)]))]),
                        4 => call("vector-ref", vec![sym(&vn), quote(sym("x"))]),
                        5 => call("-", vec![Sx::Str("s".into())]),
                        6 => call("<", vec![int(1), Sx::Bool(true)]),
                        7 => call("cdr", vec![quote(list(vec![]))]),
                        8 => call("vector-set!", vec![sym(&vn), quote(sym("x")), int(1)]),
                        9 => call("vector-set!", vec![quote(list(vec![int(1)])), int(0), int(1)]),
                        10 => call("make-vector", vec![quote(sym("a")), int(0)]),
                        11 => call("apply", vec![sym("f0"), int(5)]),
                        12 => call("*", vec![int(2), Sx::Str("s".into())]),
                        13 => call(">", vec![quote(sym("a")), int(1)]),
                        14 => call("abs", vec![quote(sym("x"))]),
                        15 => call("vector-ref", vec![quote(list(vec![int(1), int(2)])), int(0)]),
                        16 => call("car", vec![Sx::Str("s".into())]),
                        17 => call("=", vec![int(1), quote(sym("a"))]),
                        18 => call(">=", vec![Sx::Bool(true), int(1)]),
                        19 => call("<=", vec![int(1), Sx::Str("2".into())]),
                        20 => call("max", vec![int(1), quote(sym("a"))]),
                        _ => call("floor", vec![Sx::Char('x')]),
                    },
                    "wrong-type",
                )
            }
            5 => {
                let vn = self.ensure_vec();
                let len = self.vec_id(&vn).map(|id| self.m.vectors[id].items.len()).unwrap_or(3) as i64;
                let v = self.rng.upto(7);
                (
                    match v {
                        0 => call("vector-ref", vec![sym(&vn), int(len)]),
                        1 => call("vector-ref", vec![sym(&vn), int(-1)]),
                        2 => call("vector-set!", vec![sym(&vn), int(len + 2), int(0)]),
                        3 => call("vector-set!", vec![sym(&vn), int(-1), int(0)]),
                        4 => call("vector-set!", vec![sym(&vn), int(len), int(0)]),
                        5 => call("vector-ref", vec![sym(&vn), int(-len)]),
                        _ => call("vector-ref", vec![call("vector", vec![]), int(0)]),
                    },
                    "index",
                )
            }
            6 => {
                let v = self.rng.upto(3);
                (
                    match v {
                        0 => call(
                            "vector-set!",
                            vec![quote(Sx::Vector(vec![int(1), int(2)])), int(0), int(1)],
                        ),
                        1 => call("vector-set!", vec![Sx::Vector(vec![int(1), int(2)]), int(1), int(1)]),
                        _ => {
                            let name = self.fresh("v");
                            self.roles.insert(name.clone(), Role::Vec);
                            self.emit(
                                list(vec![sym("define"), sym(&name), Sx::Vector(vec![int(7), int(8)])]),
                                "mk-vector",
                                vec![name.clone()],
                                true,
                            );
                            call("vector-set!", vec![sym(&name), int(0), int(1)])
                        }
                    },
                    "literal-mutation",
                )
            }
            _ => {
                let g = self.ensure_int();
                let v = self.rng.upto(10);
                (
                    match v {
                        0 => call("/", vec![int(5), int(0)]),
                        1 => call("/", vec![sym(&g), int(0)]),
                        2 => call("/", vec![int(0)]),
                        3 => call("/", vec![int(8), int(2), int(0)]),
                        // the running quotient is a ratio when the zero arrives
                        4 => call("/", vec![int(1), int(2), int(0)]),
                        5 => call("/", vec![int(6), int(4), int(0)]),
                        6 => call("/", vec![int(7), int(2), int(3), int(0)]),
                        7 => call("/", vec![int(3), int(0), int(2)]),
                        8 => call("floor-quotient", vec![int(7), int(0)]),
                        _ => call("floor-remainder", vec![sym(&g), int(0)]),
                    },
                    "div-zero",
                )
            }
        }
    }

    fn is_call_form(e: &Sx) -> bool {
        match e {
            // special forms and the bundled derived forms are not calls: their keyword is not a
            // value that could be handed to apply, and their parts are not operands
            Sx::List(v) if !v.is_empty() => !matches!(
                v[0].as_sym(),
                Some("set!") | Some("if") | Some("quote") | Some("lambda") | Some("define") | Some("begin") | Some("cond")
                    | Some("and") | Some("or") | Some("when") | Some("unless") | Some("let") | Some("let*") | Some("case")
            ) && !v[0].as_sym().map(|h| h.starts_with("txm")).unwrap_or(false),
            _ => false,
        }
    }

    fn pre_effects(&mut self) -> Vec<Sx> {
        let mut out = vec![];
        let n = self.rng.range(0, 3);
        for _ in 0..n {
            let v = self.rng.upto(4);
            match v {
                0 => {
                    self.next_note += 1;
                    out.push(call("sim-note", vec![int(self.next_note)]));
                }
                1 => {
                    let g = self.ensure_int();
                    out.push(list(vec![sym("set!"), sym(&g), int(self.small_lit())]));
                }
                2 => {
                    let vn = self.ensure_vec();
                    let len = self.vec_id(&vn).map(|id| self.m.vectors[id].items.len()).unwrap_or(1);
                    out.push(call(
                        "vector-set!",
                        vec![sym(&vn), int(self.rng.upto(len.max(1)) as i64), int(self.small_lit())],
                    ));
                }
                _ => {
                    if let Some(c) = self.pick_name(Role::Counter) {
                        out.push(list(vec![sym(&c)]));
                    } else {
                        self.next_note += 1;
                        out.push(call("sim-note", vec![int(self.next_note)]));
                    }
                }
            }
        }
        out
    }

    /// a derived form either stands where it is or becomes the (tail) body of a procedure
    fn in_procedure_or_inline(&mut self, form: Sx, label: &str, int_valued: bool) -> Option<(Sx, String, bool)> {
        if self.rng.chance(1, 2) {
            return Some((form, label.to_string(), int_valued));
        }
        let name = self.fresh("tx");
        self.emit(list(vec![sym("define"), list(vec![sym(&name)]), form]), "def-tx", vec![], false);
        Some((list(vec![sym(&name)]), format!("{}-in-procedure", label), int_valued))
    }

    /// wrap expression `e` (int-valued when it does not fault) in a calling context.
    /// Returns the new expression and a label.
    fn wrap(&mut self, e: Sx, ctx: usize, int_valued: bool) -> Option<(Sx, String, bool)> {
        let define_proc = |g: &mut Gen, name: &str, params: Vec<Sx>, body: Vec<Sx>| {
            let mut sig = vec![sym(name)];
            sig.extend(params);
            let mut f = vec![sym("define"), list(sig)];
            f.extend(body);
            g.emit(list(f), "def-tx", vec![], false);
        };
        match ctx {
            0 => {
                // nested non-tail operand
                if !int_valued {
                    return None;
                }
                Some((call("+", vec![int(1), e]), "operand".into(), true))
            }
            1 => {
                // tail call of a procedure with pre-effects; caller continues with post-effects
                let name = self.fresh("tx");
                let mut body = self.pre_effects();
                body.push(e);
                define_proc(self, &name, vec![], body);
                if self.rng.chance(1, 2) {
                    let outer = self.fresh("to");
                    let mut post = vec![list(vec![sym("define"), sym("r"), list(vec![sym(&name)])])];
                    self.next_note += 1;
                    post.push(call("sim-note", vec![int(self.next_note)]));
                    let g = self.ensure_int();
                    post.push(list(vec![sym("set!"), sym(&g), int(self.small_lit())]));
                    post.push(sym("r"));
                    define_proc(self, &outer, vec![], post);
                    Some((list(vec![sym(&outer)]), "tail+caller-post".into(), int_valued))
                } else {
                    Some((list(vec![sym(&name)]), "tail".into(), int_valued))
                }
            }
            2 => {
                // non-tail position inside a body, with post-effects after it
                let name = self.fresh("tx");
                let mut body = self.pre_effects();
                body.push(e);
                self.next_note += 1;
                body.push(call("sim-note", vec![int(self.next_note)]));
                let g = self.ensure_int();
                body.push(list(vec![sym("set!"), sym(&g), int(self.small_lit())]));
                body.push(int(0));
                define_proc(self, &name, vec![], body);
                Some((list(vec![sym(&name)]), "body-nontail".into(), true))
            }
            3 => {
                // either arm of a tail if
                let name = self.fresh("tx");
                let mut body = self.pre_effects();
                let then_arm = self.rng.chance(1, 2);
                body.push(if then_arm {
                    list(vec![sym("if"), sym("x"), e, int(0)])
                } else {
                    list(vec![sym("if"), sym("x"), int(0), e])
                });
                define_proc(self, &name, vec![sym("x")], body);
                Some((
                    list(vec![sym(&name), Sx::Bool(then_arm)]),
                    "tail-if".into(),
                    int_valued,
                ))
            }
            4 => {
                // after several trampoline bounces
                let name = self.fresh("tx");
                self.next_note += 1;
                let body = vec![
                    call("sim-note", vec![call("+", vec![int(self.next_note * 100), sym("n")])]),
                    list(vec![
                        sym("if"),
                        call("=", vec![sym("n"), int(0)]),
                        e,
                        list(vec![sym(&name), call("-", vec![sym("n"), int(1)])]),
                    ]),
                ];
                define_proc(self, &name, vec![sym("n")], body);
                let k = self.rng.range(1, 6);
                Some((list(vec![sym(&name), int(k)]), "tail-bounce".into(), int_valued))
            }
            5 => {
                // mutual recursion in tail position
                let a = self.fresh("tx");
                let b = self.fresh("tx");
                define_proc(
                    self,
                    &a,
                    vec![sym("n")],
                    vec![list(vec![
                        sym("if"),
                        call("=", vec![sym("n"), int(0)]),
                        e,
                        list(vec![sym(&b), call("-", vec![sym("n"), int(1)])]),
                    ])],
                );
                define_proc(self, &b, vec![sym("n")], vec![list(vec![sym(&a), sym("n")])]);
                let k = self.rng.range(1, 5);
                Some((list(vec![sym(&a), int(k)]), "tail-mutual".into(), int_valued))
            }
            6 => {
                // through apply (the operator must be something that is a value: not a macro keyword)
                if !Self::is_call_form(&e) || matches!(&e, Sx::List(v) if v[0].as_sym().map(|h| h.starts_with("txm")).unwrap_or(false)) {
                    return None;
                }
                let v = match &e {
                    Sx::List(v) => v.clone(),
                    _ => unreachable!(),
                };
                // only when the operator is something apply can be handed as a value
                let mut args = quote(list(vec![]));
                for a in v[1..].iter().rev() {
                    args = call("cons", vec![a.clone(), args]);
                }
                Some((call("apply", vec![v[0].clone(), args]), "apply".into(), int_valued))
            }
            7 => {
                // inside the procedure argument of a library procedure, at the n-th element
                let n = self.rng.range(2, 5);
                let k = self.rng.range(1, n);
                let items: Vec<Sx> = (1..=n).map(int).collect();
                self.next_note += 1;
                let base = self.next_note * 100;
                let which = self.rng.upto(3);
                let test = call("=", vec![sym("x"), int(k)]);
                match which {
                    0 => Some((
                        call(
                            "for-each",
                            vec![
                                list(vec![
                                    sym("lambda"),
                                    list(vec![sym("x")]),
                                    call("sim-note", vec![call("+", vec![int(base), sym("x")])]),
                                    list(vec![sym("if"), test, e, int(0)]),
                                ]),
                                quote(list(items)),
                            ],
                        ),
                        "for-each".into(),
                        false,
                    )),
                    1 => {
                        if !int_valued {
                            return None;
                        }
                        Some((
                            call(
                                "fold-left",
                                vec![
                                    list(vec![
                                        sym("lambda"),
                                        list(vec![sym("x"), sym("acc")]),
                                        call("sim-note", vec![call("+", vec![int(base), sym("x")])]),
                                        list(vec![sym("if"), test, e, call("+", vec![sym("acc"), sym("x")])]),
                                    ]),
                                    int(0),
                                    quote(list(items)),
                                ],
                            ),
                            "fold-left".into(),
                            true,
                        ))
                    }
                    _ => {
                        if !int_valued {
                            return None;
                        }
                        Some((
                            call(
                                "fold-right",
                                vec![
                                    list(vec![
                                        sym("lambda"),
                                        list(vec![sym("x"), sym("acc")]),
                                        call("sim-note", vec![call("+", vec![int(base), sym("x")])]),
                                        list(vec![sym("if"), test, e, call("+", vec![sym("acc"), sym("x")])]),
                                    ]),
                                    int(0),
                                    quote(list(items)),
                                ],
                            ),
                            "fold-right".into(),
                            true,
                        ))
                    }
                }
            }
            9 => {
                // the fault is an operand of a call that is itself in tail position
                if !int_valued {
                    return None;
                }
                self.need("f2");
                let name = self.fresh("tx");
                let mut body = self.pre_effects();
                body.push(call("f2", vec![e, int(1)]));
                define_proc(self, &name, vec![], body);
                Some((list(vec![sym(&name)]), "operand-of-tail-call".into(), true))
            }
            10 => {
                // the fault is the test of a conditional
                let name = self.fresh("tx");
                let mut body = self.pre_effects();
                body.push(list(vec![sym("if"), e, int(1), int(2)]));
                define_proc(self, &name, vec![], body);
                Some((list(vec![sym(&name)]), "if-test".into(), true))
            }
            11 => {
                // inside the procedure given to map (no host notes here: the order in which map
                // applies its procedure is left open)
                if !int_valued {
                    return None;
                }
                let n = self.rng.range(2, 5);
                let k = self.rng.range(1, n);
                let items: Vec<Sx> = (1..=n).map(int).collect();
                Some((
                    call(
                        "car",
                        vec![call(
                            "map",
                            vec![
                                list(vec![
                                    sym("lambda"),
                                    list(vec![sym("x")]),
                                    list(vec![sym("if"), call("=", vec![sym("x"), int(k)]), e, sym("x")]),
                                ]),
                                quote(list(items)),
                            ],
                        )],
                    ),
                    "map".into(),
                    true,
                ))
            }
            12 => {
                // the fault is the argument handed to the setter half of a getter/setter pair
                if !int_valued {
                    return None;
                }
                let p = self.pick_name(Role::Cell)?;
                Some((
                    list(vec![call("car", vec![call("cdr", vec![sym(&p)])]), e]),
                    "setter-argument".into(),
                    true,
                ))
            }
            13 => {
                // the fault inside a cond: as a test, in a clause body, as the tested value handed
                // to a receiver, in the else body
                let shape = self.rng.upto(4);
                let mut pre = self.pre_effects();
                let (form, label, iv) = match shape {
                    0 => (
                        list(vec![sym("cond"), list(vec![Sx::Bool(false), int(5)]), list(vec![e, int(1)]), list(vec![sym("else"), int(2)])]),
                        "cond-test",
                        true,
                    ),
                    1 => {
                        let mut clause = vec![call("=", vec![int(1), int(1)])];
                        clause.append(&mut pre);
                        clause.push(e);
                        (
                            list(vec![sym("cond"), list(vec![call("=", vec![int(1), int(2)]), int(5)]), list(clause), list(vec![sym("else"), int(7)])]),
                            "cond-clause-body",
                            int_valued,
                        )
                    }
                    2 => {
                        if !int_valued {
                            return None;
                        }
                        (
                            list(vec![
                                sym("cond"),
                                list(vec![e, sym("=>"), list(vec![sym("lambda"), list(vec![sym("t")]), call("+", vec![sym("t"), int(1)])])]),
                                list(vec![sym("else"), int(0)]),
                            ]),
                            "cond-receiver",
                            true,
                        )
                    }
                    _ => {
                        let mut clause = vec![sym("else")];
                        clause.append(&mut pre);
                        clause.push(e);
                        (list(vec![sym("cond"), list(vec![Sx::Bool(false), int(5)]), list(clause)]), "cond-else", int_valued)
                    }
                };
                self.in_procedure_or_inline(form, label, iv)
            }
            14 => {
                // the fault as an operand of and / or
                let shape = self.rng.upto(4);
                let (form, label, iv) = match shape {
                    0 => (list(vec![sym("and"), int(1), e, int(2)]), "and-middle", true),
                    1 => (list(vec![sym("and"), int(1), e]), "and-last", int_valued),
                    2 => (list(vec![sym("or"), Sx::Bool(false), e]), "or-last", int_valued),
                    _ => (list(vec![sym("or"), Sx::Bool(false), e, int(3)]), "or-middle", int_valued),
                };
                self.in_procedure_or_inline(form, label, iv)
            }
            15 => {
                // the fault in the body of when / unless / begin, with effects before and after
                let shape = self.rng.upto(4);
                if shape == 3 {
                    // the fault is the test itself
                    // (two results: the bundled rule `(when test result1 result2 ...)` refuses a
                    // single one — a macro-matching matter, C04/C05, not this property's)
                    let f = list(vec![sym("when"), e, int(3), int(4)]);
                    return self.in_procedure_or_inline(f, "when-test", true);
                }
                let mut body = self.pre_effects();
                if body.is_empty() {
                    self.next_note += 1;
                    body.push(call("sim-note", vec![int(self.next_note)]));
                }
                body.push(e);
                let tail = self.rng.chance(1, 2);
                let mut iv = int_valued;
                if !tail {
                    self.next_note += 1;
                    body.push(call("sim-note", vec![int(self.next_note)]));
                    let g = self.ensure_int();
                    body.push(list(vec![sym("set!"), sym(&g), int(self.small_lit())]));
                    body.push(int(0));
                    iv = true;
                }
                let (mut form, label) = match shape {
                    0 => (vec![sym("when"), call("=", vec![int(1), int(1)])], "when-body"),
                    1 => (vec![sym("unless"), call("=", vec![int(1), int(2)])], "unless-body"),
                    _ => (vec![sym("begin")], "begin-body"),
                };
                form.append(&mut body);
                self.in_procedure_or_inline(list(form), label, iv)
            }
            16 => {
                // the fault is handed to a macro of the program and evaluated inside its expansion
                if !int_valued {
                    return None;
                }
                let name = self.fresh("txm");
                let shape = self.rng.upto(3);
                let template = match shape {
                    0 => list(vec![sym("+"), int(1), sym("a")]),
                    1 => list(vec![sym("if"), call("=", vec![int(1), int(1)]), sym("a"), int(0)]),
                    _ => list(vec![list(vec![sym("lambda"), list(vec![sym("v")]), call("+", vec![sym("v"), int(2)])]), sym("a")]),
                };
                let def = list(vec![
                    sym("define-syntax"),
                    sym(&name),
                    list(vec![sym("syntax-rules"), list(vec![]), list(vec![list(vec![sym(&name), sym("a")]), template])]),
                ]);
                self.emit(def, "def-tx-macro", vec![], false);
                Some((list(vec![sym(&name), e]), "macro-use".into(), true))
            }
            17 => {
                // the fault while the OPERATOR of a call is being worked out
                Some((
                    list(vec![list(vec![sym("begin"), e, sym("car")]), quote(list(vec![int(1), int(2)]))]),
                    "operator-expression".into(),
                    true,
                ))
            }
            18 => {
                // the fault as one element of a vector under construction, or as its fill
                if self.rng.chance(1, 2) {
                    Some((call("vector-ref", vec![call("vector", vec![int(1), e, int(3)]), int(0)]), "vector-element".into(), true))
                } else {
                    Some((call("vector-length", vec![call("make-vector", vec![int(2), e])]), "make-vector-fill".into(), true))
                }
            }
            19 => {
                // the fault as the initialiser of an internal definition: the later ones never run
                if !int_valued {
                    return None;
                }
                let name = self.fresh("tx");
                self.next_note += 1;
                let note = self.next_note;
                let body = vec![
                    list(vec![sym("define"), sym("first"), int(1)]),
                    list(vec![sym("define"), sym("inner"), e]),
                    list(vec![sym("define"), sym("later"), call("sim-note", vec![int(note)])]),
                    call("+", vec![sym("first"), sym("inner")]),
                ];
                define_proc(self, &name, vec![], body);
                Some((list(vec![sym(&name)]), "internal-definition-initialiser".into(), true))
            }
            8 => {
                // many frames between the fault and the top level, none of them a tail call
                if !int_valued {
                    return None;
                }
                let name = self.fresh("tx");
                define_proc(
                    self,
                    &name,
                    vec![sym("n")],
                    vec![list(vec![
                        sym("if"),
                        call("=", vec![sym("n"), int(0)]),
                        e,
                        call("+", vec![int(1), list(vec![sym(&name), call("-", vec![sym("n"), int(1)])])]),
                    ])],
                );
                let k = self.rng.range(10, 40);
                Some((list(vec![sym(&name), int(k)]), "deep-nontail".into(), true))
            }
            _ => None,
        }
    }

    /// a call with TWO failing operands, each preceded by an effect of its own. Whatever order
    /// the operands are worked out in, exactly one of the two effects happens and the error is
    /// that operand's; an evaluator that does not stop at the first failing operand shows both
    fn two_failing_operands(&mut self) {
        const FAULTS: &[(&str, &str)] = &[
            ("(car 5)", "Type"),
            ("(vector-ref (vector 1) 9)", "Index"),
            ("(/ 1 0)", "DivZero"),
            ("(5 5)", "NotProc"),
            ("(cons 1)", "Arity"),
            ("(vector-set! #(1 2) 0 1)", "Immutable"),
        ];
        let i = self.rng.upto(FAULTS.len());
        let mut j = self.rng.upto(FAULTS.len() - 1);
        if j >= i {
            j += 1;
        }
        self.need("f2");
        self.next_note += 1;
        let a = self.next_note;
        self.next_note += 1;
        let b = self.next_note;
        let text = format!("(f2 (begin (sim-note {}) {}) (begin (sim-note {}) {}))", a, FAULTS[i].0, b, FAULTS[j].0);
        let sx = parse_one(&text).expect("two-fault form parses");
        self.emit(sx, &format!("fault2:{}:{}:{}", a, b, FAULTS[j].1), vec![], true);
    }

    /// an index or a length that is an INEXACT number (the reference model has
    /// no such numbers: the expected error kind travels in the form's kind)
    fn inexact_index_fault(&mut self) {
        let vn = self.ensure_vec();
        // (inexact numbers only: a ratio such as 4/2 IS the exact integer 2, whatever an
        // implementation makes of it while reading)
        let text = match self.rng.upto(4) {
            0 => format!("(vector-ref {} 1.0)", vn),
            1 => format!("(vector-set! {} 0.0 5)", vn),
            2 => "(make-vector 2.0 0)".to_string(),
            _ => format!("(vector-ref {} 1.5)", vn),
        };
        self.forms.push(FormRec { text, kind: "faultx:Type".to_string(), roots: vec![], write: false });
    }

    fn fault_transaction(&mut self) {
        if self.rng.chance(1, 12) {
            self.two_failing_operands();
            return;
        }
        if self.rng.chance(1, 14) {
            self.inexact_index_fault();
            return;
        }
        let kind = self.rng.upto(8);
        let (fault, kind_name) = self.fault_expr(kind);
        let mut labels = vec![kind_name.to_string()];
        // dynamic position: the fault strikes at the n-th evaluation of the site
        let dynamic = self.rng.chance(1, 3);
        let mut repeat = 1u64;
        let mut e = fault;
        let mut int_valued = true; // when the fault does not fire the site yields 0
        if dynamic {
            self.next_site += 1;
            let site = self.next_site;
            repeat = self.rng.range(2, 4) as u64;
            let occ = self.rng.range(1, repeat as i64) as u64;
            self.armed.insert(site, occ);
            self.m.host.armed.insert(site, occ);
            e = list(vec![sym("if"), call("sim-flip", vec![int(site)]), e, int(0)]);
            labels.push(format!("dynamic@{}/{}", occ, repeat));
        } else if !Self::is_call_form(&e) && !matches!(e, Sx::Sym(_)) {
            // (set! nosuch 1) yields no integer
            int_valued = false;
        }
        let depth = self.rng.pick_weighted(&[2, 5, 3]);
        let mut top = depth == 0;
        for _ in 0..depth {
            let ctx = self.rng.upto(20);
            if let Some((ne, label, iv)) = self.wrap(e.clone(), ctx, int_valued) {
                e = ne;
                int_valued = iv;
                labels.push(label);
            }
        }
        if labels.len() == 1 + dynamic as usize {
            top = true;
        }
        if top {
            labels.push("top-level".into());
        }
        if !dynamic && self.rng.chance(1, 5) {
            // the same failing form again and again: nothing may accumulate across failures
            repeat = *self.rng.pick(&[3u64, 8, 12]);
            labels.push(format!("storm-x{}", repeat));
        }
        let in_definition = int_valued && self.rng.chance(1, 4);
        // ... sometimes of a name that is ALREADY bound: the old value must survive
        let redefine: Option<String> = if in_definition && self.rng.chance(1, 3) { self.pick_name(Role::Int) } else { None };
        if in_definition {
            labels.push(if redefine.is_some() { "redefinition-initialiser".into() } else { "definition-initialiser".into() });
        }
        let kind_label = format!("fault:{}", labels.join(">"));
        for _ in 0..repeat {
            if in_definition {
                // the name must not come into being when its initialiser faults
                let name = match &redefine {
                    Some(g) => g.clone(),
                    None => self.fresh("df"),
                };
                self.emit(list(vec![sym("define"), sym(&name), e.clone()]), &kind_label, vec![], true);
                self.emit(sym(&name), "probe-defined-name", vec![], false);
            } else {
                self.emit(e.clone(), &kind_label, vec![], true);
            }
        }
    }
}

pub fn generate_a(seed: u64, quick: bool, faults: bool) -> Value {
    let mut rng = Rng::new(seed);
    let hash_seed = rng.next_u64() | 1;
    // swarm configuration
    let steps = if quick { rng.range(10, 40) } else { rng.range(10, 60) } as usize;
    let nops = 46;
    let mut weights: Vec<u32> = (0..nops).map(|_| if rng.chance(1, 4) { 0 } else { rng.range(1, 6) as u32 }).collect();
    if weights.iter().all(|w| *w == 0) {
        weights[0] = 1;
    }
    // some op must be able to start from nothing
    weights[0] = weights[0].max(1);
    weights[14] = weights[14].max(1);
    let max_vectors = rng.range(1, 4) as usize;
    let max_closures = rng.range(1, 5) as usize;
    let nfaults = if faults {
        if rng.chance(1, 3) { 0 } else { rng.range(1, 3) as usize }
    } else {
        0
    };
    let mut m = Machine::new_with_base();
    m.define_host();
    let mut g = Gen {
        rng,
        m,
        forms: vec![],
        roles: BTreeMap::new(),
        next_id: BTreeMap::new(),
        helpers: BTreeSet::new(),
        next_site: 0,
        next_note: 0,
        armed: BTreeMap::new(),
        gen_errors: vec![],
        weights,
        max_vectors,
        max_closures,
        hook_defined: false,
        callers: vec![],
        rec_made: 0,
    };
    // where the fault transactions go
    let mut fault_at: BTreeSet<usize> = BTreeSet::new();
    for _ in 0..nfaults {
        fault_at.insert(g.rng.upto(steps));
    }
    let mut emitted = 0usize;
    let mut attempts = 0;
    while emitted < steps && attempts < steps * 20 {
        attempts += 1;
        if fault_at.remove(&emitted) {
            g.fault_transaction();
            emitted += 1;
            // state held only inside closures is invisible to the frame comparison: sweep it
            if g.rng.chance(2, 3) {
                for name in g.names_with(Role::Cell) {
                    g.emit(list(vec![call("car", vec![sym(&name)])]), "sweep-cell", vec![name], false);
                }
                for name in g.names_with(Role::Counter).into_iter().chain(g.names_with(Role::Adder)) {
                    g.emit(list(vec![sym(&name)]), "sweep-counter", vec![name], true);
                }
                for name in g.names_with(Role::Acc) {
                    g.emit(call(&name, vec![int(0)]), "sweep-acc", vec![name], true);
                }
            }
            continue;
        }
        let w = g.weights.clone();
        let which = g.rng.pick_weighted(&w);
        if g.op(which) {
            emitted += 1;
        }
    }
    let forms: Vec<Value> = g
        .forms
        .iter()
        .map(|f| json!({"t": f.text, "k": f.kind, "roots": f.roots, "w": f.write}))
        .collect();
    json!({
        "seed": seed,
        "hash_seed": hash_seed,
        "mode": if faults { "C08" } else { "C03" },
        "armed": g.armed.iter().map(|(k, v)| (k.to_string(), json!(v))).collect::<serde_json::Map<_, _>>(),
        "forms": forms,
        "gen_errors": g.gen_errors,
    })
}

// ------------------------------------------------------------------ execution

fn model_object_of(m: &Machine, name: &str) -> Option<String> {
    match m.root.lookup(name) {
        Some(RV::Vector(id)) => Some(format!("v{}", id)),
        Some(RV::Closure(c)) => {
            // identify the shared binding by the frame the closure captured
            Some(format!("f{:p}", std::rc::Rc::as_ptr(&c.env)))
        }
        Some(RV::Pair(_)) => Some(format!("p:{}", name)),
        Some(RV::Int(_)) => Some(format!("g:{}", name)),
        _ => None,
    }
}

/// walk model value and real value in parallel, collecting (model vector id, real reference)
fn collect_vectors(
    m: &Machine,
    rv: &RV,
    real: &ruschm::values::Value<f32>,
    out: &mut Vec<(VecId, bool, ruschm::values::ValueReference<Vec<ruschm::values::Value<f32>>>)>,
    depth: u32,
) {
    use ruschm::parser::pair::GenericPair;
    use ruschm::values::Value as V;
    if depth > 60 {
        return;
    }
    match (rv, real) {
        (RV::Vector(id), V::Vector(r)) => {
            out.push((*id, m.vectors[*id].mutable, r.clone()));
            let items: Vec<V<f32>> = r.as_ref().iter().cloned().collect();
            for (a, b) in m.vectors[*id].items.iter().zip(items.iter()) {
                collect_vectors(m, a, b, out, depth + 1);
            }
        }
        (RV::Pair(p), V::Pair(q)) => {
            if let GenericPair::Some(a, b) = q.as_ref() {
                collect_vectors(m, &p.0, a, out, depth + 1);
                collect_vectors(m, &p.1, b, out, depth + 1);
            }
        }
        _ => {}
    }
}

fn state_hash(m: &Machine) -> u64 {
    let mut s = String::new();
    for (k, v) in m.root.vars.borrow().iter() {
        if matches!(v, RV::Builtin(_) | RV::Host(_)) {
            continue;
        }
        s.push_str(k);
        s.push('=');
        s.push_str(&obs_of_rv(m, v).short());
        s.push(';');
    }
    fnv64(s.as_bytes())
}

fn execute_a(case: Value) -> RunResult {
    let mut res = RunResult::default();
    let mode = case["mode"].as_str().unwrap_or("C03").to_string();
    if let Some(errs) = case["gen_errors"].as_array() {
        if !errs.is_empty() {
            res.invalid = Some(format!("generator: {}", errs[0]));
            return res;
        }
    }
    let forms = case["forms"].as_array().cloned().unwrap_or_default();
    let mut armed: BTreeMap<i64, u64> = BTreeMap::new();
    if let Some(a) = case["armed"].as_object() {
        for (k, v) in a {
            armed.insert(k.parse().unwrap_or(0), v.as_u64().unwrap_or(0));
        }
    }
    res.log.push(format!("seed={} hash_seed={} mode={}", case["seed"], case["hash_seed"], mode));
    let mut m = Machine::new_with_base();
    m.define_host();
    m.host.armed = armed.clone();
    let mut real = match RealSys::new(true) {
        Ok(r) => r,
        Err(p) => {
            res.violation = Some(Violation {
                signature: format!("{}/panic/{}", mode, p.signature()),
                detail: json!({"step": -1, "panic": p.message, "at": format!("{}:{}", p.file, p.line)}),
            });
            return res;
        }
    };
    real.define_host();
    real.host.borrow_mut().armed = armed;
    ruschm::verif_hooks::set_budget(3_000_000, 20_000);
    let steps0 = ruschm::verif_hooks::steps();

    let mut kinds = String::new();
    // bookkeeping for the non-triviality rule
    let mut last_write: Option<(String, String)> = None; // (object, root used)
    let mut alias_read = false;
    let mut other_read = false;

    for (step, f) in forms.iter().enumerate() {
        let text = f["t"].as_str().unwrap_or("").to_string();
        let kind = f["k"].as_str().unwrap_or("?").to_string();
        kinds.push_str(&kind);
        kinds.push(',');
        let sx = match parse_one(&text) {
            Ok(s) => s,
            Err(e) => {
                res.invalid = Some(format!("unparsable form {}: {}", text, e));
                return res;
            }
        };
        if kind.starts_with("unjudged:") {
            // only that the evaluation comes back matters (a panic does not count as coming back)
            let got = real.eval_text(&text);
            res.log.push(format!("{:>3} [{}] {} => {} | (not judged)", step, kind, text, got.short()));
            if let Outcome::Panic(p) = &got {
                res.violation = Some(Violation {
                    signature: format!("{}/panic/{}", mode, p.signature()),
                    detail: json!({"step": step, "form": text, "panic": p.message}),
                });
                break;
            }
            continue;
        }
        if let Some(want) = kind.strip_prefix("faultx:") {
            // nothing is evaluated by the model: the form must fail with the stated kind before
            // it has any effect, and the comparisons of the following forms see to the rest
            let got = real.eval_text(&text);
            res.log.push(format!("{:>3} [{}] {} => {} | expected an error of kind {}", step, kind, text, got.short(), want));
            res.count(&format!("fault_fired.{}", want));
            res.count("fault_context.not-an-exact-integer");
            let ghead = match &got {
                Outcome::Error(g) => format!("{:?}", g).split('(').next().unwrap_or("").to_string(),
                Outcome::Panic(p) => {
                    res.violation = Some(Violation {
                        signature: format!("{}/panic/{}", mode, p.signature()),
                        detail: json!({"step": step, "form": text, "panic": p.message}),
                    });
                    break;
                }
                Outcome::Value(_) => "".to_string(),
            };
            if ghead != want {
                let sig = if ghead.is_empty() { format!("missed-error/{}", want) } else { format!("wrong-error/{}->{}", want, ghead) };
                res.violation = Some(Violation {
                    signature: format!("{}/{}", mode, sig),
                    detail: json!({"step": step, "form": text, "expected": format!("ERR {}", want), "observed": got.short()}),
                });
                break;
            }
            continue;
        }
        let expected_r = m.eval_top(&sx);
        match &expected_r {
            Err(RErr::Budget) => {
                res.invalid = Some(format!("reference model out of fuel at step {}", step));
                return res;
            }
            Err(RErr::Unsupported(s)) => {
                res.invalid = Some(format!("reference model does not cover step {}: {}", step, s));
                return res;
            }
            _ => {}
        }
        let mut expected = model_outcome(&m, &expected_r);
        let got = real.eval_text(&text);
        if kind.starts_with("fault2:") {
            // the order in which operands are worked out is the implementation's: the outcome
            // that belongs to the second operand (its effect alone, its error) is as good
            let parts: Vec<&str> = kind.split(':').collect();
            let (a, b) = (parts[1].parse::<i64>().unwrap_or(-1), parts[2].parse::<i64>().unwrap_or(-1));
            if let Outcome::Error(g) = &got {
                let gname = format!("{:?}", g);
                let gname = gname.split('(').next().unwrap_or("").to_string();
                let rt = real.host.borrow().trace.clone();
                if gname == parts[3] && rt.last() == Some(&b) && m.host.trace.last() == Some(&a) && rt.len() == m.host.trace.len() {
                    m.host.trace.pop();
                    m.host.trace.push(b);
                    expected = got.clone();
                    res.count("probe.second_operand_worked_out_first");
                }
            }
            res.count("fault_context.two-failing-operands");
        }
        res.log.push(format!(
            "{:>3} [{}] {} => {} | model {}",
            step,
            kind,
            text,
            got.short(),
            expected.short()
        ));
        if kind.starts_with("fault:") {
            if let Outcome::Error(k) = &expected {
                let kname = format!("{:?}", k);
                let kname = kname.split('(').next().unwrap_or("").to_string();
                res.count(&format!("fault_fired.{}", kname));
                for part in kind[6..].split('>').skip(1) {
                    let part = part.split('@').next().unwrap_or(part);
                    res.count(&format!("fault_context.{}", part));
                    res.count(&format!("fault_kind_x_context.{}x{}", kname, part));
                }
            }
        }
        let mut violate = |sig: String, detail: Value, res: &mut RunResult| {
            res.violation = Some(Violation {
                signature: format!("{}/{}", mode, sig),
                detail,
            });
        };
        // 1. outcome
        if let Outcome::Panic(p) = &got {
            violate(
                format!("panic/{}", p.signature()),
                json!({"step": step, "form": text, "panic": p.message, "at": format!("{}:{}", p.file, p.line), "expected": expected.short()}),
                &mut res,
            );
            break;
        }
        if !outcome_matches(&expected, &got) {
            let sig = match (&expected, &got) {
                (Outcome::Error(e), Outcome::Value(_)) => {
                    let k = format!("{:?}", e);
                    format!("missed-error/{}", k.split('(').next().unwrap_or(""))
                }
                (Outcome::Error(e), Outcome::Error(g)) => {
                    let a = format!("{:?}", e);
                    let b = format!("{:?}", g);
                    format!(
                        "wrong-error/{}->{}",
                        a.split('(').next().unwrap_or(""),
                        b.split('(').next().unwrap_or("")
                    )
                }
                (Outcome::Value(_), Outcome::Error(g)) => {
                    let b = format!("{:?}", g);
                    format!("unexpected-error/{}", b.split('(').next().unwrap_or(""))
                }
                _ => "wrong-value".to_string(),
            };
            violate(
                sig,
                json!({"step": step, "form": text, "expected": expected.short(), "observed": got.short()}),
                &mut res,
            );
            break;
        }
        // 2. host effect trace
        if m.host.trace != real.host.borrow().trace {
            violate(
                "effects-differ".into(),
                json!({"step": step, "form": text, "expected_trace": m.host.trace, "observed_trace": real.host.borrow().trace}),
                &mut res,
            );
            break;
        }
        // 3. cross-invariant: every model global equals the interpreter's root frame
        let mut bad_global = None;
        let mut vecs = vec![];
        for (name, rv) in m.root.vars.borrow().iter() {
            if matches!(rv, RV::Builtin(_) | RV::Host(_)) {
                continue;
            }
            let exp = obs_of_rv(&m, rv);
            match real.it.env.get(name) {
                None => {
                    bad_global = Some((name.clone(), exp.short(), "<unbound>".to_string()));
                    break;
                }
                Some(v) => {
                    let got = obs_of_value(&v);
                    if !exp.accepts(&got) {
                        bad_global = Some((name.clone(), exp.short(), got.short()));
                        break;
                    }
                    collect_vectors(&m, rv, &v, &mut vecs, 0);
                }
            }
        }
        if bad_global.is_none() {
            let model_names = m.root.vars.borrow();
            let mut defs = real.it.env.iter_local_definitions();
            for (k, v) in &mut *defs {
                if model_names.contains_key(k) {
                    continue;
                }
                let digits = k.trim_start_matches(|c: char| c.is_ascii_alphabetic());
                let prefix = &k[..k.len() - digits.len()];
                let ours = !digits.is_empty()
                    && digits.chars().all(|c| c.is_ascii_digit())
                    && matches!(prefix, "g" | "c" | "a" | "p" | "v" | "l" | "vs" | "vg" | "al" | "ad" | "cl" | "nf" | "df" | "tx" | "to");
                if ours {
                    bad_global = Some((k.clone(), "<unbound>".to_string(), obs_of_value(v).short()));
                    break;
                }
            }
        }
        if let Some((name, exp, got)) = bad_global {
            violate(
                "state-diverged".into(),
                json!({"step": step, "form": text, "global": name, "expected": exp, "observed": got}),
                &mut res,
            );
            break;
        }
        // 4. cross-invariant: alias classes of vectors
        let mut alias_bad = None;
        'outer: for i in 0..vecs.len() {
            for j in (i + 1)..vecs.len() {
                let same_model = vecs[i].0 == vecs[j].0;
                let same_real = vecs[i].2.ptr_eq(&vecs[j].2);
                let both_literal = !vecs[i].1 && !vecs[j].1;
                if same_model && !same_real {
                    alias_bad = Some(("one object in the model, two in the interpreter", vecs[i].0, vecs[j].0));
                    break 'outer;
                }
                if !same_model && same_real && !both_literal {
                    alias_bad = Some(("two objects in the model, one in the interpreter", vecs[i].0, vecs[j].0));
                    break 'outer;
                }
            }
        }
        if let Some((what, a, b)) = alias_bad {
            violate(
                "alias-classes-differ".into(),
                json!({"step": step, "form": text, "what": what, "model_ids": [a, b]}),
                &mut res,
            );
            break;
        }
        res.state_hashes.push(state_hash(&m));
        // non-triviality bookkeeping
        let roots: Vec<String> = f["roots"]
            .as_array()
            .map(|a| a.iter().filter_map(|x| x.as_str().map(|s| s.to_string())).collect())
            .unwrap_or_default();
        let is_write = f["w"].as_bool().unwrap_or(false);
        for r in &roots {
            if let Some(obj) = model_object_of(&m, r) {
                if is_write {
                    last_write = Some((obj, r.clone()));
                } else if let Some((wobj, wroot)) = &last_write {
                    if &obj == wobj && r != wroot {
                        alias_read = true;
                        res.count("probe.read_through_other_path_after_write");
                    } else if &obj != wobj {
                        other_read = true;
                    }
                }
            }
        }
        if kind.contains("literal") {
            res.count("probe.literal_vector_mutation_attempted");
        }
        if kind == "eq-probe" {
            res.count("probe.identity_probe");
        }
        if kind.starts_with("shadow") {
            res.count("probe.shadowing_assignment");
        }
    }
    res.steps = ruschm::verif_hooks::steps() - steps0 + forms.len() as u64;
    res.sched_hash = fnv64(kinds.as_bytes());
    res.nontrivial = if mode == "C03" {
        alias_read && other_read
    } else {
        res.counters.keys().any(|k| k.starts_with("fault_fired."))
    };
    res
}

impl Engine for EngineA {
    fn property(&self) -> &'static str {
        if self.faults { "C08" } else { "C03" }
    }
    fn engine_name(&self) -> &'static str {
        "store-sim"
    }
    fn level(&self) -> &'static str {
        if self.faults { "fault_enumeration" } else { "exploration" }
    }
    fn runs(&self, quick: bool) -> u64 {
        if quick { 40_000 } else { 1_500_000 }
    }
    fn generate(&self, seed: u64, quick: bool) -> Value {
        generate_a(seed, quick, self.faults)
    }
    fn execute(&self, case: &Value) -> RunResult {
        let hash_seed = case["hash_seed"].as_u64().unwrap_or(1);
        let c = case.clone();
        let mode = self.property();
        match on_fresh_thread(hash_seed, move || execute_a(c)) {
            ThreadOutcome::Done(r) => r,
            ThreadOutcome::Panicked(p) => {
                // a panic outside `guarded` is the simulator's own
                let mut r = RunResult::default();
                r.invalid = Some(format!("{} harness panic: {} at {}:{}", mode, p.message, p.file, p.line));
                r
            }
        }
    }
    fn shrink(&self, case: &Value) -> Vec<Value> {
        let mut out = shrink_list(case, "forms");
        // inside a procedure definition: drop body statements other than the last
        if let Some(forms) = case["forms"].as_array() {
            for (fi, f) in forms.iter().enumerate() {
                let Ok(Sx::List(v)) = parse_one(f["t"].as_str().unwrap_or("")) else { continue };
                if v.len() > 3 && v[0].as_sym() == Some("define") && matches!(v[1], Sx::List(_) | Sx::Dotted(..)) {
                    for bi in 2..v.len() - 1 {
                        let mut w = v.clone();
                        w.remove(bi);
                        let mut fs = forms.clone();
                        fs[fi]["t"] = json!(Sx::List(w).to_text());
                        out.push(with_field(case, "forms", json!(fs)));
                    }
                }
            }
        }
        // disarm dynamic sites
        if let Some(a) = case["armed"].as_object() {
            for k in a.keys() {
                let mut c = case.clone();
                c["armed"].as_object_mut().unwrap().remove(k);
                out.push(c);
            }
        }
        if case["hash_seed"].as_u64() != Some(1) {
            out.push(with_field(case, "hash_seed", json!(1)));
        }
        out
    }
    fn rule(&self) -> String {
        if self.faults {
            "seeded histories of 10-60 top-level forms on one interpreter (store operations of engine A) with 0-3 fault transactions: fault kind (8) x calling context (17: operand, tail, tail-if, trampoline bounce, mutual tail recursion, apply, for-each/fold-left/fold-right/map element, caller with post-effects, operand of a tail call, if test, setter argument, deep non-tail recursion, cond test/clause/receiver/else, and/or operand, when/unless/begin body or test, argument of a program macro; derived-form contexts inline or as a procedure body) nested up to depth 2 x dynamic occurrence via sim-flip, storms of one failing form, faults as definition initialisers, type faults after an absorbing element, procedures applied where they are written; every form is checked against the reference store model (value or error kind, host effect trace, all globals, vector alias classes). distinct = hash of the op-kind sequence; non-trivial = at least one injected fault actually fired".into()
        } else {
            "seeded histories of 10-60 top-level forms on one interpreter over shared integer globals, counters/accumulators/cells from generator procedures, and vectors aliased through variables, arguments, captured references, lists and other vectors; counter makers over bindings made by parameters, internal defines (one evaluated late, one carrying a parameter's name), let, let* (one name bound twice), a let in operand position, and the bodies of begin/cond/when/or/and; vectors containing themselves; redefined containers and integers; writes inside derived forms; every form is checked against the reference store model (value, all globals, vector alias classes by Rc identity). distinct = hash of the op-kind sequence; non-trivial = a write was followed by a read of the same object through a different root name and by a read of a different object".into()
        }
    }
    fn assumptions(&self) -> Vec<String> {
        vec![
            "the reference store model (sim/src/refint.rs) is the meaning of the core forms; it never calls into Ruschm".into(),
            "operand evaluation order, values of definitions/assignments and identity of separately evaluated literals are left open and not judged".into(),
            "integers stay below 2^30; no reals or ratios are generated".into(),
            "a clean batch is evidence over the sampled histories, not a proof".into(),
        ]
    }
    fn components(&self) -> Value {
        json!({
            "real": ["lexer", "parser", "macro expander (bundled forms only)", "evaluator", "environment", "native builtins", "bundled (scheme base) for list/for-each/folds in C08"],
            "stub": ["(sim host) procedures sim-flip/sim-note", "entropy for HashMap keys (getrandom interposed)", "evaluation budget hook"],
            "model": ["reference store interpreter"]
        })
    }
}
