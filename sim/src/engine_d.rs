//! Engine D, "damage-sim" (C07, storage-fault slice): valid sources (the
//! repository's examples and bundled library texts, fault-free programs and
//! library worlds rendered from engines A and B) are hit by storage faults and
//! then used: eval_file / import on a fresh interpreter under an evaluation budget.
//! Oracle: the call returns (Ok or Err), never panics, and the same interpreter
//! still evaluates a sanity program afterwards.

use crate::framework::*;
use crate::hashseed::{guarded, on_fresh_thread_with_deadline, ThreadOutcome};
use crate::rng::{fnv64, Rng};
use ruschm::interpreter::Interpreter;
use ruschm::values::Value as RValue;
use serde_json::{json, Value};
use std::path::PathBuf;

pub struct EngineD;
pub static ENGINE_C07: EngineD = EngineD;

fn repo_file(rel: &str) -> Option<Vec<u8>> {
    std::fs::read(format!("/repo/{}", rel)).ok()
}

const REPO_PROGRAMS: &[&str] = &[
    "examples/closure.scm",
    "examples/fib-tail.scm",
    "examples/fib.scm",
    "examples/macros.scm",
    "examples/sum-tail.scm",
    "examples/ycombinator.scm",
    "tests/test_macros/macro_list.scm",
];

fn hex(b: &[u8]) -> String {
    b.iter().map(|x| format!("{:02x}", x)).collect()
}
fn unhex(s: &str) -> Vec<u8> {
    (0..s.len() / 2).filter_map(|i| u8::from_str_radix(&s[2 * i..2 * i + 2], 16).ok()).collect()
}

fn file_entry(path: &str, bytes: &[u8]) -> Value {
    match std::str::from_utf8(bytes) {
        Ok(t) => json!({"path": path, "text": t}),
        Err(_) => json!({"path": path, "hex": hex(bytes)}),
    }
}

fn entry_bytes(e: &Value) -> Option<Vec<u8>> {
    if let Some(t) = e["text"].as_str() {
        Some(t.as_bytes().to_vec())
    } else {
        e["hex"].as_str().map(unhex)
    }
}

/// pick a world of valid sources: (files, main program path)
const NON_ASCII_PROGRAM: &str = "(import (scheme base) (scheme write))\n; комментарий с (скобкой\n(define grüße \"grüße, λ und 中文 (ok)\")\n(display grüße)\n(newline)\n(define (länge l) (if (pair? l) (+ 1 (länge (cdr l))) 0)) ; λ-Kalkül\n(display (länge '(α β γ)))\n(display #\\λ)\n(newline)\n";

/// a valid program that leans on the expander: macros that define macros, nested uses,
/// macros expanding to definitions and assignments inside procedures
const MACRO_PROGRAM: &str = "(import (scheme base) (scheme write))\n(define-syntax def-getter\n  (syntax-rules ()\n    ((def-getter name value)\n     (define-syntax name (syntax-rules () ((name) value))))))\n(def-getter seven 7)\n(display (seven))\n(define-syntax swap!\n  (syntax-rules ()\n    ((swap! a b) ((lambda (tmp) (set! a b) (set! b tmp)) a))))\n(define p 1)\n(define q 2)\n(swap! p q)\n(display (list p q))\n(define-syntax my-or\n  (syntax-rules ()\n    ((my-or) #f)\n    ((my-or e) e)\n    ((my-or e r ...) ((lambda (t) (if t t (my-or r ...))) e))))\n(display (my-or #f #f 3))\n(define-syntax twice (syntax-rules () ((twice e) (+ e e))))\n(define (f x) (twice (twice x)))\n(display (f 4))\n(define-syntax def-two\n  (syntax-rules ()\n    ((def-two a b v) ((lambda () (define a v) (define b v) (+ a b))))))\n(display (def-two x y 5))\n(newline)\n";

/// macros whose templates repeat elements with several ellipsis variables (single-digit items:
/// one lost byte changes how many items a variable matched)
const ELLIPSIS_PROGRAM: &str = "(import (scheme base) (scheme write))\n(define-syntax sum-pairs\n  (syntax-rules ()\n    ((sum-pairs (a ...) (b ...)) (list (+ a b) ...))))\n(display (sum-pairs (1 2 3 4) (5 6 7 8)))\n(define-syntax my-let\n  (syntax-rules ()\n    ((my-let ((n v) ...) body ...) ((lambda (n ...) body ...) v ...))))\n(display (my-let ((x 1) (y 2) (z 3)) (+ x y z)))\n(define-syntax flat\n  (syntax-rules ()\n    ((flat (a b ...) ...) (list (list a b ...) ...))))\n(display (flat (1 2 3) (4 5) (6 7)))\n(define-syntax for\n  (syntax-rules (in)\n    ((for x in (e ...) body) (list ((lambda (x) body) e) ...))))\n(display (for y in (1 2 3) (* y y)))\n(define-syntax zip3\n  (syntax-rules ()\n    ((zip3 (a ...) (b ...) (c ...)) (list (list a b c) ...))))\n(display (zip3 (1 2 3) (4 5 6) (7 8 9)))\n(newline)\n";

/// a short program that is mostly escapes and literals at the edge of what they can denote: a
/// single flipped bit moves one of them over the edge
const ESCAPES_PROGRAM: &str = "(import (scheme base) (scheme write))\n(display \"\\x10FFFF;\\xD7FF;\\xE000;\\x7F;\\x0;\")\n(display #\\a)\n(display 2147483647)\n(display -2147483648)\n(display 1/2)\n(display 1e38)\n(display '(1 . 2))\n(newline)\n";

fn pick_world(rng: &mut Rng) -> (Vec<(String, Vec<u8>)>, String) {
    let c = rng.upto(14);
    match c {
        13 => (vec![("main.scm".into(), ESCAPES_PROGRAM.as_bytes().to_vec())], "escapes-program".into()),
        12 => (vec![("main.scm".into(), ELLIPSIS_PROGRAM.as_bytes().to_vec())], "ellipsis-program".into()),
        11 => (vec![("main.scm".into(), MACRO_PROGRAM.as_bytes().to_vec())], "macro-program".into()),
        10 => (vec![("main.scm".into(), NON_ASCII_PROGRAM.as_bytes().to_vec())], "non-ascii-program".into()),
        0 | 1 | 2 => {
            let p = *rng.pick(REPO_PROGRAMS);
            let bytes = repo_file(p).unwrap_or_else(|| b"(import (scheme base))\n(+ 1 2)\n".to_vec());
            (vec![("main.scm".into(), bytes)], format!("repo:{}", p))
        }
        3 => {
            // the bundled (scheme base) source as an ordinary user library
            let base = String::from_utf8_lossy(&repo_file("src/interpreter/library/include/scheme/base.sld").unwrap_or_default())
                .replace("(define-library (scheme base)", "(define-library (user base)");
            let main = "(import (user base) (scheme write))\n(display (map (lambda (x) (* x x)) (list 1 2 3)))\n(newline)\n(display (append '(1 2) '(3) '()))\n(display (fold-left + 0 '(1 2 3)))\n(display (list-tail '(1 2 3 4) 2))\n(display (equal? '(1 (2)) '(1 (2))))\n";
            (
                vec![("main.scm".into(), main.as_bytes().to_vec()), ("user/base.sld".into(), base.into_bytes())],
                "repo:base.sld-as-user-library".into(),
            )
        }
        4 => {
            // the bundled derived-form definitions as a user program, then used
            let g = String::from_utf8_lossy(&repo_file("src/parser/grammar.sld").unwrap_or_default()).to_string();
            let main = format!(
                "(import (scheme base) (scheme write))\n{}\n(display (let* ((a 1) (b (+ a 1))) (cond ((< b a) 'x) (else (case b ((1) 'one) ((2) 'two) (else 'many))))))\n(display (and 1 (or #f 2)))\n(when #t (display 'w) (display 'w2))\n",
                g
            );
            (vec![("main.scm".into(), main.into_bytes())], "repo:grammar.sld-as-program".into())
        }
        5 | 6 | 7 => {
            // a history of engine A as one program file: fault-free, or with its fault
            // transactions (valid programs that run into run-time errors; the host procedures
            // become two ordinary definitions)
            let with_faults = rng.chance(1, 2);
            let sub = crate::engine_a::generate_a(rng.next_u64(), true, with_faults);
            let mut text = String::from("(import (scheme base) (scheme write))\n");
            if with_faults {
                text.push_str("(define (sim-note k) k)\n(define (sim-flip k) #t)\n");
            }
            for f in sub["forms"].as_array().cloned().unwrap_or_default() {
                text.push_str(f["t"].as_str().unwrap_or(""));
                text.push('\n');
            }
            (vec![("main.scm".into(), text.into_bytes())], if with_faults { "engine-a-history-with-faults".into() } else { "engine-a-history".into() })
        }
        8 | 9 => {
            // a library world of engine B with its program
            let sub = crate::engine_b::generate_c13(rng.next_u64(), true);
            let mut files = vec![];
            for l in sub["libs"].as_array().cloned().unwrap_or_default() {
                if l["native"].as_bool().unwrap_or(false) {
                    continue;
                }
                files.push((
                    match l["file"].as_str() {
                        Some(f) => format!("lib/{}", f),
                        None => format!("lib/{}.sld", l["short"].as_str().unwrap_or("x")),
                    },
                    crate::engine_b::lib_source(&l).into_bytes(),
                ));
            }
            let mut text = String::new();
            for o in sub["ops"].as_array().cloned().unwrap_or_default() {
                if let Some(t) = o["t"].as_str() {
                    text.push_str(t);
                    text.push('\n');
                }
            }
            files.insert(0, ("main.scm".into(), text.into_bytes()));
            (files, "engine-b-world".into())
        }
        _ => unreachable!(),
    }
}

const FAULT_KINDS: &[&str] = &[
    "truncate",
    "bitflip",
    "zero-sector",
    "duplicate-sector",
    "transpose-sectors",
    "stale-tail",
    "bom",
    "directory",
    "empty",
    "dangling-symlink",
    "drop-byte",
    "insert-byte",
    "insert-two-bytes",
    "insert-multibyte-char",
    "append-other-file",
    "written-twice",
    "copy-inside-itself",
];

fn damage(rng: &mut Rng, bytes: &mut Vec<u8>, kind: &str, other: &[u8]) {
    let n = bytes.len();
    if n == 0 {
        return;
    }
    let sector = *rng.pick(&[512usize, 64, 16]);
    match kind {
        "truncate" => {
            let at = rng.upto(n);
            bytes.truncate(at);
        }
        "bitflip" => {
            for _ in 0..rng.range(1, 3) {
                let at = rng.upto(n);
                bytes[at] ^= 1 << rng.upto(8);
            }
        }
        "zero-sector" => {
            let start = (rng.upto(n) / sector) * sector;
            let end = (start + sector).min(n);
            for b in &mut bytes[start..end] {
                *b = 0;
            }
        }
        "duplicate-sector" => {
            let start = (rng.upto(n) / sector) * sector;
            let end = (start + sector).min(n);
            let chunk = bytes[start..end].to_vec();
            let at = end;
            bytes.splice(at..at, chunk);
        }
        "transpose-sectors" => {
            let s = sector.min(n / 2).max(1);
            let a = rng.upto(n - s + 1);
            let b = rng.upto(n - s + 1);
            if a + s <= b || b + s <= a {
                for i in 0..s {
                    bytes.swap(a + i, b + i);
                }
            }
        }
        "stale-tail" => {
            let at = rng.upto(n);
            bytes.truncate(at);
            let from = rng.upto(other.len().max(1)).min(other.len());
            bytes.extend_from_slice(&other[from..]);
        }
        "bom" => {
            bytes.splice(0..0, [0xEF, 0xBB, 0xBF]);
        }
        "drop-byte" => {
            bytes.remove(rng.upto(n));
        }
        "append-other-file" => {
            // two files run together: the other one follows where this one should end
            bytes.extend_from_slice(other);
        }
        "written-twice" => {
            let copy = bytes.clone();
            bytes.extend_from_slice(&copy);
        }
        "copy-inside-itself" => {
            let copy = bytes.clone();
            let at = rng.upto(n + 1);
            bytes.splice(at..at, copy);
        }
        "insert-multibyte-char" => {
            let at = rng.upto(n + 1);
            let ch = *rng.pick(&["λ", "ü", "中", "\u{feff}", "é", "\u{1F600}"]);
            let tail = bytes.split_off(at);
            bytes.extend_from_slice(ch.as_bytes());
            bytes.extend_from_slice(&tail);
        }
        "insert-byte" => {
            let at = rng.upto(n + 1);
            let b = *rng.pick(b"()#\\'\".;|0123456789/e+- \n\xff\x00");
            bytes.insert(at, b);
        }
        "insert-two-bytes" => {
            // two stray bytes next to each other (they may form a token of their own)
            let at = rng.upto(n + 1);
            let alphabet = b"()#\\'\".;|0123456789/e+- \n\xff\x00";
            let (b1, b2) = if rng.chance(1, 3) {
                // biased towards pairs that open or close something in the reader
                let pair = *rng.pick(&[b". ", b"(.", b"#|", b"|#", b"#;", b",@", b"#\\", b"#(", b"'(", b"\"\\", b"#!", b"#d", b"#e", b"1/", b"-."]);
                (pair[0], pair[1])
            } else {
                (*rng.pick(alphabet), *rng.pick(alphabet))
            };
            bytes.insert(at, b2);
            bytes.insert(at, b1);
        }
        _ => {}
    }
}

fn generate_d(seed: u64, _quick: bool) -> Value {
    let mut rng = Rng::new(seed);
    let hash_seed = rng.next_u64() | 1;
    let (mut files, origin) = pick_world(&mut rng);
    let other: Vec<u8> = repo_file(*rng.pick(REPO_PROGRAMS)).unwrap_or_default();
    // swarm: enabled fault kinds for this run
    let enabled: Vec<&str> = {
        let v: Vec<&str> = FAULT_KINDS.iter().copied().filter(|_| rng.chance(1, 2)).collect();
        if v.is_empty() { vec![*rng.pick(FAULT_KINDS)] } else { v }
    };
    let nfaults = rng.range(1, 3);
    let mut faults = vec![];
    let mut special: Vec<(String, String)> = vec![];
    for _ in 0..nfaults {
        let kind = *rng.pick(&enabled);
        // the program file or one library file of the world
        let target = if files.len() > 1 && rng.chance(1, 2) { 1 + rng.upto(files.len() - 1) } else { 0 };
        match kind {
            "directory" | "empty" | "dangling-symlink" => {
                if kind == "empty" {
                    files[target].1.clear();
                } else {
                    special.push((files[target].0.clone(), kind.to_string()));
                }
            }
            k => {
                // what gets mixed in: another file of the same world if there is one
                let mixin: Vec<u8> = if files.len() > 1 && rng.chance(2, 3) {
                    let o = (target + 1 + rng.upto(files.len() - 1)) % files.len();
                    files[o].1.clone()
                } else {
                    other.clone()
                };
                damage(&mut rng, &mut files[target].1, k, &mixin)
            }
        }
        faults.push(json!({"kind": kind, "file": files[target].0}));
    }
    let mut entries: Vec<Value> = vec![];
    for (p, b) in &files {
        if let Some((_, k)) = special.iter().find(|(sp, _)| sp == p) {
            entries.push(json!({"path": p, "special": k}));
        } else {
            entries.push(file_entry(p, b));
        }
    }
    let mode = {
            let main_untouched = faults.iter().all(|f| f["file"].as_str() != Some("main.scm"));
            let c = rng.upto(8);
            if c < 4 {
                "eval_file"
            } else if c < 5 {
                "eval_text"
            } else if c < 7 {
                "cli"
            } else if main_untouched && origin == "engine-b-world" {
                "eval_forms"
            } else {
                "eval_file"
            }
    };
    json!({
        "seed": seed,
        "hash_seed": hash_seed,
        "origin": origin,
        "faults": faults,
        "files": entries,
        "mode": mode,
    })
}

fn execute_d(case: Value) -> RunResult {
    let mut res = RunResult::default();
    let files: Vec<Value> = case["files"].as_array().cloned().unwrap_or_default();
    let mode = case["mode"].as_str().unwrap_or("eval_file").to_string();
    res.log.push(format!(
        "seed={} hash_seed={} origin={} faults={} mode={}",
        case["seed"], case["hash_seed"], case["origin"], case["faults"], mode
    ));
    let root = crate::sandbox::fresh_dir("damage");
    let mut main_path = root.join("main.scm");
    let mut main_bytes: Option<Vec<u8>> = None;
    for (i, e) in files.iter().enumerate() {
        let p = root.join(e["path"].as_str().unwrap_or("main.scm"));
        if let Some(parent) = p.parent() {
            let _ = std::fs::create_dir_all(parent);
        }
        match e["special"].as_str() {
            Some("directory") => {
                let _ = std::fs::create_dir_all(&p);
            }
            Some("dangling-symlink") => {
                let _ = std::os::unix::fs::symlink(root.join("no-such-target"), &p);
            }
            _ => {
                if let Some(b) = entry_bytes(e) {
                    if i == 0 {
                        main_bytes = Some(b.clone());
                    }
                    let _ = std::fs::write(&p, b);
                }
            }
        }
        if i == 0 {
            main_path = p;
        }
    }
    if mode == "cli" {
        // the same damaged world given to the real binary: the process must not panic
        let r = crate::procio::run_cli(
            &root,
            case["hash_seed"].as_u64().unwrap_or(1),
            &["main.scm".to_string()],
            std::time::Duration::from_secs(2),
        );
        crate::sandbox::remove_dir(&root);
        let mut all = vec![];
        for e in &files {
            all.extend(entry_bytes(e).unwrap_or_default());
            all.extend(e["special"].as_str().unwrap_or("").as_bytes());
        }
        res.sched_hash = fnv64(&all) ^ 0x5151;
        for f in case["faults"].as_array().cloned().unwrap_or_default() {
            res.count(&format!("fault_injected.{}", f["kind"].as_str().unwrap_or("")));
        }
        res.count("mode.cli");
        match r {
            Err(e) => res.invalid = Some(format!("cannot run the ruschm binary: {}", e)),
            Ok(c) => {
                let stderr = crate::procio::strip_ansi(&c.stderr);
                let class = if c.timed_out {
                    "timeout"
                } else if c.signal.is_some() {
                    "signal"
                } else if c.code == Some(101) && stderr.contains("panicked at") {
                    "PANIC"
                } else if c.code == Some(0) {
                    "ok"
                } else {
                    "diagnostic"
                };
                res.log.push(format!("binary on the damaged world => {} (status {:?}, signal {:?})", class, c.code, c.signal));
                res.count(&format!("outcome.cli-{}", class));
                res.nontrivial = class == "diagnostic";
                match class {
                    "PANIC" => {
                        let at = stderr.split("panicked at ").nth(1).and_then(|x| x.split(':').next()).unwrap_or("?").to_string();
                        let msg = stderr.split("panicked at ").nth(1).and_then(|x| x.lines().nth(1)).unwrap_or("").to_string();
                        res.violation = Some(Violation {
                            signature: format!("C07/binary-panics/{}|{}", crate::hashseed::stable_path(&at), crate::hashseed::message_class(&msg)),
                            detail: json!({"status": c.code, "stderr": stderr.lines().skip(1).take(2).collect::<Vec<_>>(), "origin": case["origin"], "faults": case["faults"]}),
                        });
                    }
                    // non-termination, stack and memory exhaustion are outside the claim
                    "timeout" | "signal" => res.discarded = Some(format!("binary ended by {}", class)),
                    _ => {}
                }
            }
        }
        return res;
    }
    ruschm::verif_hooks::set_budget(200_000, 1_500);
    ruschm::verif_hooks::set_loader_depth_limit(64);
    ruschm::verif_hooks::set_expansion_depth_limit(400);
    let steps0 = ruschm::verif_hooks::steps();
    let mut it = match guarded(Interpreter::<f32>::default) {
        Ok(it) => it,
        Err(p) => {
            crate::sandbox::remove_dir(&root);
            res.invalid = Some(format!("cannot create an interpreter: {}", p.signature()));
            return res;
        }
    };
    // eval_forms: the (undamaged) program given form by form, so that it is known whether a
    // failure struck while the program was still importing
    let mut failed_while_importing = false;
    let mode2 = mode.clone();
    let outcome = {
        let it = &mut it;
        let mp = main_path.clone();
        let parent: Option<PathBuf> = main_path.parent().map(|p| p.to_path_buf());
        let fwi = &mut failed_while_importing;
        guarded(move || {
            if mode == "eval_forms" {
                it.program_directory = parent;
                let text = String::from_utf8_lossy(&main_bytes.unwrap_or_default()).to_string();
                let mut last = Ok(None);
                let mut importing = true;
                for line in text.lines() {
                    if !line.trim_start().starts_with("(import") {
                        importing = false;
                    }
                    last = it.eval(line.chars());
                    if last.is_err() {
                        *fwi = importing;
                        break;
                    }
                }
                last
            } else if mode == "eval_file" {
                it.eval_file(mp)
            } else {
                // the same code without io.rs: lossily decoded text
                it.program_directory = parent;
                let text = String::from_utf8_lossy(&main_bytes.unwrap_or_default()).to_string();
                it.eval(text.chars())
            }
        })
    };
    let exhausted = ruschm::verif_hooks::exhausted();
    let class = match &outcome {
        Ok(Ok(_)) => "ok".to_string(),
        Ok(Err(e)) => match &e.data {
            ruschm::error::ErrorData::Syntax(_) => "syntax-error".to_string(),
            ruschm::error::ErrorData::IO(_) => "io-error".to_string(),
            ruschm::error::ErrorData::Logic(_) => {
                if exhausted { "budget".to_string() } else { "logic-error".to_string() }
            }
        },
        Err(p) => format!("PANIC {}", p.signature()),
    };
    res.log.push(format!("use of the damaged world => {}", class));
    res.count(&format!("outcome.{}", class.split(' ').next().unwrap_or("")));
    if let Err(p) = &outcome {
        res.violation = Some(Violation {
            signature: format!("C07/panic/{}", p.signature()),
            detail: json!({"panic": p.message, "at": format!("{}:{}", p.file, p.line), "function": p.function, "origin": case["origin"], "faults": case["faults"]}),
        });
    } else if exhausted {
        // non-termination and deep recursion are outside the claim
        res.discarded = Some("budget".into());
    } else {
        // the same interpreter still evaluates further input
        ruschm::verif_hooks::set_budget(200_000, 1_500);
        let probe = format!("sim-probe-{}", case["seed"].as_u64().unwrap_or(0) % 100_000);
        let mut checks: Vec<(String, String)> = vec![];
        if mode2 == "eval_forms" && failed_while_importing {
            // the program was still importing when a library failed: importing goes on
            checks.push(("(import (only (scheme base) car))".to_string(), String::new()));
            res.count("probe.import_after_failed_import");
        }
        checks.extend(vec![
            ("'sane".to_string(), "sane".to_string()),
            (format!("(define {} 'v)", probe), String::new()),
            (probe.clone(), "v".to_string()),
            ("((lambda (x) (if x 'yes 'no)) #t)".to_string(), "yes".to_string()),
        ]);
        for (form, want) in checks {
            let r = {
                let it = &mut it;
                guarded(|| it.eval(form.chars()))
            };
            let ok = match &r {
                Ok(Ok(None)) => want.is_empty(),
                Ok(Ok(Some(RValue::Symbol(s)))) => s == &want,
                _ => false,
            };
            if !ok {
                let got = match &r {
                    Ok(Ok(v)) => format!("{:?}", v.as_ref().map(|v| v.to_string())),
                    Ok(Err(e)) => format!("error: {}", e),
                    Err(p) => format!("PANIC {}", p.signature()),
                };
                res.log.push(format!("sanity {} => {}", form, got));
                res.violation = Some(Violation {
                    signature: match &r {
                        Err(p) => format!("C07/panic-after-error/{}", p.signature()),
                        _ => "C07/interpreter-unusable-afterwards".to_string(),
                    },
                    detail: json!({"form": form, "expected": want, "observed": got, "first_outcome": class, "origin": case["origin"], "faults": case["faults"]}),
                });
                break;
            }
        }
    }
    crate::sandbox::remove_dir(&root);
    res.steps = ruschm::verif_hooks::steps() - steps0;
    let mut all = vec![];
    for e in &files {
        all.extend(entry_bytes(e).unwrap_or_default());
        all.extend(e["special"].as_str().unwrap_or("").as_bytes());
    }
    res.sched_hash = fnv64(&all);
    res.state_hashes.push(fnv64(class.as_bytes()));
    res.nontrivial = class != "ok" && class != "io-error";
    for f in case["faults"].as_array().cloned().unwrap_or_default() {
        res.count(&format!("fault_injected.{}", f["kind"].as_str().unwrap_or("")));
    }
    res.count(&format!("origin.{}", case["origin"].as_str().unwrap_or("").split(':').next().unwrap_or("")));
    res
}

impl Engine for EngineD {
    fn property(&self) -> &'static str {
        "C07"
    }
    fn engine_name(&self) -> &'static str {
        "damage-sim"
    }
    fn level(&self) -> &'static str {
        "fault_enumeration"
    }
    fn runs(&self, quick: bool) -> u64 {
        if quick { 40_000 } else { 2_000_000 }
    }
    fn generate(&self, seed: u64, quick: bool) -> Value {
        generate_d(seed, quick)
    }
    fn execute(&self, case: &Value) -> RunResult {
        let hash_seed = case["hash_seed"].as_u64().unwrap_or(1);
        let c = case.clone();
        // evaluation is bounded by the step budget (well under a second of work); the only
        // way past the deadline is reading or expanding that never ends - which the property
        // rules out just like a panic
        let secs: u64 = std::env::var("VERIF_HANG_SECS").ok().and_then(|s| s.parse().ok()).unwrap_or(45);
        match on_fresh_thread_with_deadline(hash_seed, 32, secs, move || execute_d(c)) {
            Some(ThreadOutcome::Done(r)) => r,
            Some(ThreadOutcome::Panicked(p)) => {
                let mut r = RunResult::default();
                r.invalid = Some(format!("harness panic: {} at {}:{}", p.message, p.file, p.line));
                r
            }
            None => {
                let mut r = RunResult::default();
                r.log.push(format!("origin={} mode={}: no result after {} s although evaluation is limited to a step budget", case["origin"], case["mode"], secs));
                r.violation = Some(Violation {
                    signature: "C07/reading-or-expanding-does-not-terminate".into(),
                    detail: json!({"origin": case["origin"], "mode": case["mode"], "faults": case["faults"], "waited_s": secs}),
                });
                // the busy thread cannot be stopped: this process must be replaced
                r.aux.push("RETIRE-WORKER".into());
                r
            }
        }
    }
    fn may_kill_process(&self) -> bool {
        true
    }
    fn max_deaths_per_worker(&self) -> usize {
        100_000
    }
    fn worker_address_space_mb(&self) -> u64 {
        // a runaway expansion fills memory: fail fast, it is outside the claim anyway
        768
    }
    fn on_process_death(&self, _case: &Value, status: &str) -> RunResult {
        // stack exhaustion and allocation failure abort the process: outside the claim
        let mut r = RunResult::default();
        r.discarded = Some(format!("process death ({}): stack or memory exhaustion, outside the claim", status.split('(').next().unwrap_or("")));
        r
    }
    fn shrink(&self, case: &Value) -> Vec<Value> {
        let mut out = vec![];
        let files = case["files"].as_array().cloned().unwrap_or_default();
        // drop library files
        for i in (1..files.len()).rev() {
            out.push(with_field(case, "files", json!(without_index(&files, i))));
        }
        if case["mode"].as_str() == Some("eval_file") {
            out.push(with_field(case, "mode", json!("eval_text")));
        }
        // shrink the content of each file: drop chunks of lines, lines, then characters
        for (fi, f) in files.iter().enumerate() {
            let Some(bytes) = entry_bytes(f) else { continue };
            let text = String::from_utf8_lossy(&bytes).to_string();
            let path = f["path"].as_str().unwrap_or("main.scm");
            let put = |t: String| -> Value {
                let mut fs = files.clone();
                fs[fi] = json!({"path": path, "text": t});
                with_field(case, "files", json!(fs))
            };
            if f["hex"].is_string() {
                out.push(put(text.clone()));
            }
            let lines: Vec<&str> = text.split_inclusive('\n').collect();
            let n = lines.len();
            let mut chunk = n / 2;
            while chunk >= 1 {
                let mut start = 0;
                while start < n {
                    let end = (start + chunk).min(n);
                    let t: String = lines[..start].iter().chain(lines[end..].iter()).copied().collect();
                    out.push(put(t));
                    start = end;
                }
                if chunk == 1 {
                    break;
                }
                chunk /= 2;
            }
            if text.len() <= 600 {
                let cs: Vec<char> = text.chars().collect();
                let n = cs.len();
                let mut chunk = (n / 2).max(1);
                loop {
                    let mut start = 0;
                    while start < n {
                        let end = (start + chunk).min(n);
                        let t: String = cs[..start].iter().chain(cs[end..].iter()).collect();
                        out.push(put(t));
                        start = end;
                    }
                    if chunk == 1 {
                        break;
                    }
                    chunk /= 2;
                }
            }
        }
        out
    }
    fn rule(&self) -> String {
        "seeded worlds of valid sources (the repository's 7 example/test programs, the bundled base.sld as a user library, the bundled derived-form definitions as a program, histories of engine A with and without their fault transactions, library worlds of engine B, macro-heavy / ellipsis-heavy / non-ASCII / edge-escape programs) hit by 1-3 storage faults on the program file or one library file (truncation at any byte, 1-3 bit flips, zeroed / duplicated / transposed 512-, 64- or 16-byte sector, stale tail from another file, BOM, directory / empty / dangling symlink in place of the file, dropped byte, one or two inserted bytes from a token-boundary alphabet, whole-file duplication faults), then used through Interpreter::eval_file (3/4) or eval of the lossily decoded text (1/4) on a fresh interpreter under a budget of 200000 evaluation steps and depth 1500, followed by four sanity forms on the same interpreter. distinct = hash of the damaged bytes; non-trivial = the damaged world did not simply evaluate as if undamaged and was not refused before reading".into()
    }
    fn assumptions(&self) -> Vec<String> {
        vec![
            "only the storage-fault slice of C07 is decided: files the interpreter reads may be damaged; the clause over all character sequences as such (short-string enumeration, token soup) is input enumeration and is not emulated".into(),
            "budget exhaustion, stack exhaustion and allocation failure end a run outside the claim: counted and discarded".into(),
            "the sanity forms use only keywords wired into the parser (quote, define, lambda, if), which a damaged program cannot have redefined".into(),
        ]
    }
    fn components(&self) -> Value {
        json!({
            "real": ["io.rs", "lexer", "parser", "macro expander", "evaluator", "library loader", "kernel file system"],
            "stub": ["file contents (valid sources + injected damage)", "evaluation budget and loader nesting hooks", "entropy for HashMap keys"],
            "model": ["none needed: the oracle is 'returns, does not panic, interpreter still usable'"]
        })
    }
}
