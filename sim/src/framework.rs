//! Engine interface, worker processes with a journal, coordinator, determinism
//! re-check, delta-debugging minimiser, replay files, known findings, evidence.

use crate::rng::{fnv64, run_seed};
use serde_json::{json, Map, Value};
use std::collections::{BTreeMap, BTreeSet, HashSet};
use std::io::{BufRead, BufReader, Write};
use std::process::{Command, Stdio};
use std::time::Instant;

pub const DEFAULT_SEED: u64 = 20_261_004;

#[derive(Clone, Debug)]
pub struct Violation {
    /// classification preserved by the minimiser and matched against known findings
    pub signature: String,
    pub detail: Value,
}

#[derive(Clone, Debug, Default)]
pub struct RunResult {
    pub violation: Option<Violation>,
    /// run ended outside the claim (budget, stack, memory): counted, not judged
    pub discarded: Option<String>,
    /// the case was not a valid schedule (only possible for minimiser candidates)
    pub invalid: Option<String>,
    pub log: Vec<String>,
    pub counters: BTreeMap<String, u64>,
    pub sched_hash: u64,
    pub nontrivial: bool,
    pub state_hashes: Vec<u64>,
    pub steps: u64,
    /// engine-private observations (e.g. for comparing two executions of one case)
    pub aux: Vec<String>,
}

impl RunResult {
    pub fn count(&mut self, key: &str) {
        *self.counters.entry(key.to_string()).or_insert(0) += 1;
    }
    pub fn add(&mut self, key: &str, n: u64) {
        *self.counters.entry(key.to_string()).or_insert(0) += n;
    }
    pub fn log_hash(&self) -> u64 {
        let mut h = 0xcbf2_9ce4_8422_2325u64;
        for l in &self.log {
            h = h.rotate_left(5) ^ fnv64(l.as_bytes());
        }
        h
    }
}

pub trait Engine: Sync {
    fn property(&self) -> &'static str;
    fn engine_name(&self) -> &'static str;
    fn level(&self) -> &'static str;
    fn runs(&self, quick: bool) -> u64;
    /// explicit case: configuration + schedule, derived from the seed alone
    fn generate(&self, seed: u64, quick: bool) -> Value;
    /// execute a case (on fresh thread(s) whose hash keys come from the case)
    fn execute(&self, case: &Value) -> RunResult;
    /// smaller variants of a case, most aggressive first
    fn shrink(&self, case: &Value) -> Vec<Value>;
    fn rule(&self) -> String;
    fn assumptions(&self) -> Vec<String>;
    fn components(&self) -> Value;
    /// verdict when the worker process died while executing a case
    fn on_process_death(&self, _case: &Value, status: &str) -> RunResult {
        let mut r = RunResult::default();
        r.violation = Some(Violation {
            signature: format!("{}/process-death", self.property()),
            detail: json!({ "status": status }),
        });
        r
    }
    /// may a case kill the process (then the minimiser isolates candidates in child processes)
    fn may_kill_process(&self) -> bool {
        false
    }
    /// address-space limit of a worker process
    fn worker_address_space_mb(&self) -> u64 {
        4096
    }
    /// how many process deaths one worker slot tolerates before the batch is cut short
    fn max_deaths_per_worker(&self) -> usize {
        6
    }
}

pub fn base_seed() -> u64 {
    match std::env::var("VERIF_SEED") {
        Ok(s) => s.trim().parse::<u64>().unwrap_or_else(|_| fnv64(s.as_bytes())),
        Err(_) => DEFAULT_SEED,
    }
}

pub fn verif_root() -> String {
    std::env::var("VERIF_ROOT").unwrap_or_else(|_| "/verif".to_string())
}

// ------------------------------------------------------------------ worker

/// `worker PROP quick|thorough BASE W N TOTAL` runs indices W, W+N, ... < TOTAL;
/// `worker PROP tier BASE list i,j,k` runs exactly those.
pub fn worker_main(engine: &dyn Engine, args: &[String]) -> i32 {
    let quick = args[0] == "quick";
    let base: u64 = args[1].parse().unwrap();
    let indices: Vec<u64> = if args[2] == "list" {
        args[3]
            .split(',')
            .filter(|s| !s.is_empty())
            .map(|s| s.parse().unwrap())
            .collect()
    } else {
        let w: u64 = args[2].parse().unwrap();
        let n: u64 = args[3].parse().unwrap();
        let total: u64 = args[4].parse().unwrap();
        let from: u64 = args.get(5).map(|s| s.parse().unwrap()).unwrap_or(0);
        (0..total).filter(|i| i % n == w && *i >= from).collect()
    };
    // a run must not be able to exhaust the machine: bound the address space
    unsafe {
        let bytes = engine.worker_address_space_mb() << 20;
        let lim = libc::rlimit { rlim_cur: bytes, rlim_max: bytes };
        libc::setrlimit(libc::RLIMIT_AS, &lim);
    }
    // the protocol goes to a private duplicate of fd 1; fd 1 itself is pointed at
    // /dev/null so that whatever the system under test prints cannot corrupt it
    // (engines that need the output redirect fd 1 to a memfd around the evaluation)
    let recycle_mb: u64 = std::env::var("VERIF_RECYCLE_MB")
        .ok()
        .and_then(|s| s.parse().ok())
        .unwrap_or_else(|| (engine.worker_address_space_mb() / 3).min(700));
    let proto = crate::procio::take_over_stdout();
    let mut out = std::io::BufWriter::new(proto);
    let mut counters: BTreeMap<String, u64> = BTreeMap::new();
    let mut sched: HashSet<u64> = HashSet::new();
    let mut sched_nontrivial: HashSet<u64> = HashSet::new();
    let mut states: HashSet<u64> = HashSet::new();
    let mut steps: u64 = 0;
    let mut samples: Vec<Value> = vec![];
    for (n, i) in indices.iter().enumerate() {
        let seed = run_seed(base, engine.property(), *i);
        writeln!(out, "J {} {}", i, seed).unwrap();
        out.flush().unwrap();
        // a panic of the simulator's own code is a harness error, never a process death
        let (case, r) = match crate::hashseed::guarded(|| {
            let case = engine.generate(seed, quick);
            let r = engine.execute(&case);
            (case, r)
        }) {
            Ok(x) => x,
            Err(p) => {
                let mut r = RunResult::default();
                r.invalid = Some(format!("harness panic: {} at {}:{}", p.message, p.file, p.line));
                (Value::Null, r)
            }
        };
        for (k, v) in &r.counters {
            *counters.entry(k.clone()).or_insert(0) += v;
        }
        steps += r.steps;
        sched.insert(r.sched_hash);
        if r.nontrivial {
            sched_nontrivial.insert(r.sched_hash);
        }
        for s in &r.state_hashes {
            if s % 16 == 0 {
                states.insert(*s);
            }
        }
        if n < 2 && r.violation.is_none() {
            samples.push(abridge(&json!({"index": i, "seed": seed, "case": case, "log_tail": r.log.iter().rev().take(6).rev().collect::<Vec<_>>()})));
        }
        let flags = if r.violation.is_some() {
            "V"
        } else if r.discarded.is_some() {
            "D"
        } else if r.invalid.is_some() {
            "I"
        } else {
            "-"
        };
        writeln!(out, "R {} {} {:016x} {}", i, seed, r.log_hash(), flags).unwrap();
        if let Some(v) = &r.violation {
            writeln!(
                out,
                "V {}",
                json!({"index": i, "seed": seed, "signature": v.signature, "detail": v.detail, "case": case})
            )
            .unwrap();
        }
        if let Some(d) = &r.discarded {
            writeln!(out, "D {} {}", i, d.replace('\n', " ")).unwrap();
        }
        if let Some(d) = &r.invalid {
            writeln!(out, "I {} {}", i, d.replace('\n', " ")).unwrap();
        }
        // statistics are flushed regularly so that a process death loses little
        if n % 200 == 199 {
            emit_stats(&mut out, &mut counters, &mut steps, &mut sched, &mut sched_nontrivial, &mut states, &mut samples);
        }
        // Ruschm's environments are reference cycles: every interpreter a run creates
        // stays allocated. A worker therefore retires itself when it has grown, and the
        // coordinator starts a fresh process for the rest of its indices.
        let must_retire = r.aux.iter().any(|a| a == "RETIRE-WORKER");
        if n + 1 < indices.len() && (must_retire || (n % 50 == 49 && resident_mb() > recycle_mb)) {
            emit_stats(&mut out, &mut counters, &mut steps, &mut sched, &mut sched_nontrivial, &mut states, &mut samples);
            writeln!(out, "PARTIAL {}", i + 1).unwrap();
            out.flush().unwrap();
            return 0;
        }
    }
    emit_stats(&mut out, &mut counters, &mut steps, &mut sched, &mut sched_nontrivial, &mut states, &mut samples);
    writeln!(out, "DONE").unwrap();
    out.flush().unwrap();
    0
}

/// samples in the evidence show what a case looks like; very long strings and lists are cut
fn abridge(v: &Value) -> Value {
    match v {
        Value::String(s) if s.len() > 400 => {
            let cut: String = s.chars().take(300).collect();
            Value::String(format!("{}… [{} characters in all]", cut, s.chars().count()))
        }
        Value::Array(a) => {
            let mut out: Vec<Value> = a.iter().take(40).map(abridge).collect();
            if a.len() > 40 {
                out.push(Value::String(format!("… [{} elements in all]", a.len())));
            }
            Value::Array(out)
        }
        Value::Object(o) => Value::Object(o.iter().map(|(k, x)| (k.clone(), abridge(x))).collect()),
        other => other.clone(),
    }
}

fn resident_mb() -> u64 {
    std::fs::read_to_string("/proc/self/statm")
        .ok()
        .and_then(|s| s.split_whitespace().nth(1).and_then(|x| x.parse::<u64>().ok()))
        .map(|pages| pages * 4096 / (1 << 20))
        .unwrap_or(0)
}

#[allow(clippy::too_many_arguments)]
fn emit_stats(
    out: &mut impl Write,
    counters: &mut BTreeMap<String, u64>,
    steps: &mut u64,
    sched: &mut HashSet<u64>,
    sched_nontrivial: &mut HashSet<u64>,
    states: &mut HashSet<u64>,
    samples: &mut Vec<Value>,
) {
    writeln!(
        out,
        "S {}",
        json!({
            "counters": counters,
            "steps": steps,
            "sched": sched.iter().collect::<Vec<_>>(),
            "sched_nontrivial": sched_nontrivial.iter().collect::<Vec<_>>(),
            "states_sampled": states.iter().collect::<Vec<_>>(),
            "samples": samples,
        })
    )
    .unwrap();
    let _ = out.flush();
    counters.clear();
    *steps = 0;
    sched.clear();
    sched_nontrivial.clear();
    states.clear();
    samples.clear();
}

// ------------------------------------------------------------- coordinator

#[derive(Default)]
struct Aggregate {
    evaluations: u64,
    counters: BTreeMap<String, u64>,
    steps: u64,
    sched: HashSet<u64>,
    sched_nontrivial: HashSet<u64>,
    states_sampled: HashSet<u64>,
    samples: Vec<Value>,
    violations: Vec<Value>,
    discarded: BTreeMap<String, u64>,
    invalid: Vec<String>,
    log_hashes: BTreeMap<u64, String>,
    deaths: Vec<(u64, u64, String)>,
    partial_from: Option<u64>,
}

struct WorkerReport {
    lines: Vec<String>,
    status: String,
    success: bool,
}

fn spawn_worker(prop: &str, tier: &str, base: u64, spec: &[String]) -> WorkerReport {
    let exe = std::env::current_exe().expect("current_exe");
    let mut cmd = Command::new(exe);
    cmd.arg("worker").arg(prop).arg(tier).arg(base.to_string());
    for s in spec {
        cmd.arg(s);
    }
    cmd.stdin(Stdio::null())
        .stdout(Stdio::piped())
        .stderr(Stdio::null());
    let mut child = cmd.spawn().expect("spawn worker");
    let stdout = child.stdout.take().unwrap();
    let reader = BufReader::new(stdout);
    let mut lines = vec![];
    for l in reader.lines() {
        match l {
            Ok(l) => lines.push(l),
            Err(_) => break,
        }
    }
    let st = child.wait().expect("wait worker");
    WorkerReport {
        lines,
        success: st.success(),
        status: format!("{:?}", st),
    }
}

fn absorb(agg: &mut Aggregate, rep: &WorkerReport) -> (bool, Option<(u64, u64)>) {
    // returns (saw DONE, last journaled (index, seed) without result)
    let mut pending: Option<(u64, u64)> = None;
    let mut done = false;
    for l in &rep.lines {
        let (tag, rest) = match l.split_once(' ') {
            Some(x) => x,
            None => (l.as_str(), ""),
        };
        match tag {
            "J" => {
                let mut it = rest.split(' ');
                let i: u64 = it.next().unwrap().parse().unwrap();
                let s: u64 = it.next().unwrap().parse().unwrap();
                pending = Some((i, s));
            }
            "R" => {
                let mut it = rest.split(' ');
                let i: u64 = it.next().unwrap().parse().unwrap();
                let _s = it.next();
                let h = it.next().unwrap().to_string();
                agg.log_hashes.insert(i, h);
                agg.evaluations += 1;
                pending = None;
            }
            "V" => {
                if let Ok(v) = serde_json::from_str::<Value>(rest) {
                    agg.violations.push(v);
                }
            }
            "D" => {
                let reason = rest.split_once(' ').map(|x| x.1).unwrap_or("").to_string();
                *agg.discarded.entry(reason).or_insert(0) += 1;
            }
            "I" => agg.invalid.push(rest.to_string()),
            "S" => {
                if let Ok(v) = serde_json::from_str::<Value>(rest) {
                    if let Some(c) = v["counters"].as_object() {
                        for (k, n) in c {
                            *agg.counters.entry(k.clone()).or_insert(0) += n.as_u64().unwrap_or(0);
                        }
                    }
                    agg.steps += v["steps"].as_u64().unwrap_or(0);
                    for (key, set) in [
                        ("sched", &mut agg.sched),
                        ("sched_nontrivial", &mut agg.sched_nontrivial),
                        ("states_sampled", &mut agg.states_sampled),
                    ] {
                        if let Some(a) = v[key].as_array() {
                            for x in a {
                                if let Some(n) = x.as_u64() {
                                    set.insert(n);
                                }
                            }
                        }
                    }
                    if let Some(a) = v["samples"].as_array() {
                        for s in a {
                            if agg.samples.len() < 3 {
                                agg.samples.push(s.clone());
                            }
                        }
                    }
                }
            }
            "DONE" => done = true,
            "PARTIAL" => {
                agg.partial_from = rest.trim().parse().ok();
            }
            _ => {}
        }
    }
    (done, pending)
}


/// one worker slot: indices w, w+n, ... < total, in as many processes as it takes
/// (a worker that retires itself or dies is continued by a fresh process)
fn run_worker_slot(
    prop: &'static str,
    tier: &str,
    base: u64,
    w: u64,
    nworkers: u64,
    total: u64,
    max_deaths: usize,
) -> Vec<(WorkerReport, Option<(u64, u64)>)> {
            let mut reports: Vec<(WorkerReport, Option<(u64, u64)>)> = vec![];
            let mut from = 0u64;
            loop {
                let rep = spawn_worker(
                    prop,
                    tier,
                    base,
                    &[
                        w.to_string(),
                        nworkers.to_string(),
                        total.to_string(),
                        from.to_string(),
                    ],
                );
                let mut tmp = Aggregate::default();
                let (done, pending) = absorb(&mut tmp, &rep);
                if done && rep.success {
                    reports.push((rep, None));
                    break;
                }
                if let (Some(next), true) = (tmp.partial_from, rep.success) {
                    // the worker retired itself; continue with a fresh process
                    reports.push((rep, None));
                    from = next;
                    continue;
                }
                match pending {
                    Some((i, s)) => {
                        from = i + 1;
                        reports.push((rep, Some((i, s))));
                        if reports.iter().filter(|r| r.1.is_some()).count() > max_deaths {
                            // enough process deaths to fail the check; do not burn the machine
                            break;
                        }
                    }
                    None => {
                        // died outside any run: harness problem
                        reports.push((rep, Some((u64::MAX, 0))));
                        break;
                    }
                }
            }
            reports
}

pub struct KnownFinding {
    pub property: String,
    pub signature: String,
    pub status: String,
    pub what: String,
}

pub fn load_known_findings() -> Vec<KnownFinding> {
    let path = format!("{}/known_findings.jsonl", verif_root());
    let mut out = vec![];
    if let Ok(text) = std::fs::read_to_string(&path) {
        for line in text.lines() {
            let line = line.trim();
            if line.is_empty() || line.starts_with('#') {
                continue;
            }
            if let Ok(v) = serde_json::from_str::<Value>(line) {
                out.push(KnownFinding {
                    property: v["property"].as_str().unwrap_or("").to_string(),
                    signature: v["signature"].as_str().unwrap_or("").to_string(),
                    status: v["status"].as_str().unwrap_or("known").to_string(),
                    what: v["what"].as_str().unwrap_or("").to_string(),
                });
            }
        }
    }
    out
}

pub fn workers_count() -> u64 {
    std::env::var("VERIF_WORKERS")
        .ok()
        .and_then(|s| s.parse().ok())
        .unwrap_or_else(|| {
            std::thread::available_parallelism()
                .map(|n| n.get() as u64)
                .unwrap_or(8)
                .min(16)
        })
}

pub fn check_main(engine: &'static dyn Engine, tier: &str) -> i32 {
    let t0 = Instant::now();
    let quick = tier == "quick";
    let prop = engine.property();
    let base = base_seed();
    let total: u64 = std::env::var("VERIF_RUNS")
        .ok()
        .and_then(|s| s.parse().ok())
        .unwrap_or_else(|| engine.runs(quick));
    let nworkers = workers_count().min(total.max(1));
    println!(
        "[{}] engine={} tier={} seed={} runs={} workers={}",
        prop,
        engine.engine_name(),
        tier,
        base,
        total,
        nworkers
    );
    let mut agg = Aggregate::default();
    crate::sandbox::sweep_stale();

    // main batch; a worker that dies is resumed after the culprit index
    let mut handles = vec![];
    let max_deaths = engine.max_deaths_per_worker();
    for w in 0..nworkers {
        let tier = tier.to_string();
        handles.push(std::thread::spawn(move || run_worker_slot(prop, &tier, base, w, nworkers, total, max_deaths)));
    }
    let mut harness_errors: Vec<String> = vec![];
    for h in handles {
        for (rep, death) in h.join().expect("coordinator thread") {
            absorb(&mut agg, &rep);
            if let Some((i, s)) = death {
                if i == u64::MAX {
                    harness_errors.push(format!("worker died outside a run: {}", rep.status));
                } else {
                    agg.deaths.push((i, s, rep.status.clone()));
                }
            }
        }
    }

    // classify process deaths: re-run alone, then ask the engine
    for (i, seed, status) in agg.deaths.clone().into_iter().skip(4) {
        // beyond the first few, deaths are taken at face value (no confirming re-run)
        let case = engine.generate(seed, quick);
        let r = engine.on_process_death(&case, &status);
        agg.evaluations += 1;
        if let Some(v) = r.violation {
            agg.violations.push(json!({"index": i, "seed": seed, "signature": v.signature, "detail": v.detail, "case": case}));
        } else if let Some(d) = r.discarded {
            *agg.discarded.entry(d).or_insert(0) += 1;
        }
    }
    for (i, seed, status) in agg.deaths.clone().into_iter().take(4) {
        let rep = spawn_worker(prop, tier, base, &["list".into(), i.to_string()]);
        let mut tmp = Aggregate::default();
        let (done, _) = absorb(&mut tmp, &rep);
        let case = engine.generate(seed, quick);
        if done && rep.success {
            // did not die alone: count it normally
            agg.evaluations += tmp.evaluations;
            agg.violations.extend(tmp.violations);
            for (k, v) in tmp.discarded {
                *agg.discarded.entry(k).or_insert(0) += v;
            }
            *agg.counters.entry("worker_death_not_reproduced".into()).or_insert(0) += 1;
        } else {
            let r = engine.on_process_death(&case, &status);
            agg.evaluations += 1;
            if let Some(v) = r.violation {
                agg.violations.push(json!({"index": i, "seed": seed, "signature": v.signature, "detail": v.detail, "case": case}));
            } else if let Some(d) = r.discarded {
                *agg.discarded.entry(d).or_insert(0) += 1;
            }
        }
    }

    // determinism re-check: 2% of the indices again, in other processes
    let mut recheck_n = (total / 50).clamp(20.min(total), 400);
    if std::env::var("VERIF_NO_RECHECK").is_ok() {
        recheck_n = 0;
    }
    let mut recheck_mismatch: Vec<u64> = vec![];
    let mut rechecked = 0u64;
    if recheck_n > 0 {
        let stride = (total / recheck_n).max(1);
        let dead: BTreeSet<u64> = agg.deaths.iter().map(|d| d.0).collect();
        let idx: Vec<u64> = (0..total)
            .filter(|i| i % stride == stride / 2 && !dead.contains(i))
            .collect();
        let chunks: Vec<Vec<u64>> = idx
            .chunks((idx.len() / nworkers as usize).max(1))
            .map(|c| c.to_vec())
            .collect();
        let mut hs = vec![];
        for c in chunks {
            let tier = tier.to_string();
            hs.push(std::thread::spawn(move || {
                let list = c.iter().map(|i| i.to_string()).collect::<Vec<_>>().join(",");
                spawn_worker(prop, &tier, base, &["list".into(), list])
            }));
        }
        for h in hs {
            let rep = h.join().unwrap();
            let mut tmp = Aggregate::default();
            absorb(&mut tmp, &rep);
            for (i, hsh) in tmp.log_hashes {
                rechecked += 1;
                match agg.log_hashes.get(&i) {
                    Some(h) if h != &hsh => recheck_mismatch.push(i),
                    _ => {}
                }
            }
        }
    }

    // group violations by signature; known findings are reported, the rest minimised
    let known = load_known_findings();
    let mut by_sig: BTreeMap<String, Vec<Value>> = BTreeMap::new();
    for v in &agg.violations {
        by_sig
            .entry(v["signature"].as_str().unwrap_or("?").to_string())
            .or_default()
            .push(v.clone());
    }
    let mut known_matched: BTreeMap<String, u64> = BTreeMap::new();
    let mut new_violations: Vec<(String, Value)> = vec![];
    for (sig, vs) in &by_sig {
        if let Some(k) = known
            .iter()
            .find(|k| k.property == prop && k.status == "known" && &k.signature == sig)
        {
            println!("KNOWN-FINDING: property={} {} [{} runs] {}", prop, sig, vs.len(), k.what);
            known_matched.insert(sig.clone(), vs.len() as u64);
        } else {
            let mut sorted = vs.clone();
            sorted.sort_by_key(|v| v["index"].as_u64().unwrap_or(0));
            new_violations.push((sig.clone(), sorted[0].clone()));
        }
    }

    let mut exit = 0;
    let mut replay_paths = vec![];
    let replay_dir = format!("{}/replays", verif_root());
    for (sig, v) in new_violations.iter().take(5) {
        let _ = std::fs::create_dir_all(&replay_dir);
        let case = v["case"].clone();
        let (min_case, tried) = minimise(engine, &case, sig);
        let r = isolated_execute_if(engine, &min_case, sig.contains("process-death"));
        let detail = r
            .violation
            .as_ref()
            .map(|x| x.detail.clone())
            .unwrap_or(v["detail"].clone());
        let path = format!("{}/{}-{}.json", replay_dir, prop, v["seed"].as_u64().unwrap_or(0));
        let file = json!({
            "property": prop,
            "engine": engine.engine_name(),
            "seed": v["seed"],
            "base_seed": base,
            "index": v["index"],
            "signature": sig,
            "violation": detail,
            "case": min_case,
            "original_case_size": case.to_string().len(),
            "minimiser_candidates_tried": tried,
            "event_log": r.log,
        });
        std::fs::write(&path, serde_json::to_string_pretty(&file).unwrap()).expect("write replay");
        // the replay must reproduce in a fresh process
        let exe = std::env::current_exe().unwrap();
        let out = Command::new(exe).arg("replay").arg(&path).output().expect("replay");
        let text = String::from_utf8_lossy(&out.stdout).to_string();
        if out.status.code() == Some(1) && text.contains(&format!("signature={}", sig)) {
            println!("VIOLATION property={} replay={}", prop, path);
            println!("  signature: {}", sig);
            println!("  detail: {}", detail);
            replay_paths.push(path);
            exit = 1;
        } else {
            harness_errors.push(format!(
                "replay of {} did not reproduce signature {} (exit {:?}): {}",
                path,
                sig,
                out.status.code(),
                text.lines().last().unwrap_or("")
            ));
        }
    }
    for (sig, v) in new_violations.iter().skip(5) {
        println!("  further violation signature (not minimised): {} e.g. index {}", sig, v["index"]);
    }
    if new_violations.len() > 5 {
        println!(
            "[{}] {} further distinct violation signatures not minimised",
            prop,
            new_violations.len() - 5
        );
    }

    if !recheck_mismatch.is_empty() {
        harness_errors.push(format!(
            "determinism re-check failed for indices {:?}",
            &recheck_mismatch[..recheck_mismatch.len().min(10)]
        ));
    }
    if !agg.invalid.is_empty() {
        harness_errors.push(format!(
            "{} generated cases were not valid schedules, e.g. {}",
            agg.invalid.len(),
            agg.invalid[0]
        ));
    }

    // probes stuck at zero are reported, not fatal
    let wall = t0.elapsed().as_secs_f64();
    let mut coverage = Map::new();
    coverage.insert("evaluations".into(), json!(agg.evaluations));
    coverage.insert("distinct_nontrivial".into(), json!(agg.sched_nontrivial.len()));
    coverage.insert("rule".into(), json!(engine.rule()));
    coverage.insert("samples".into(), json!(agg.samples));
    coverage.insert("distinct_schedules".into(), json!(agg.sched.len()));
    coverage.insert(
        "distinct_model_states_estimate".into(),
        json!(agg.states_sampled.len() as u64 * 16),
    );
    coverage.insert("logical_steps".into(), json!(agg.steps));
    coverage.insert(
        "runs_per_hour".into(),
        json!((agg.evaluations as f64 / wall.max(0.001) * 3600.0) as u64),
    );
    coverage.insert(
        "seeds_per_hour".into(),
        json!((agg.evaluations as f64 / wall.max(0.001) * 3600.0) as u64),
    );
    coverage.insert(
        "simulated_time".into(),
        json!({"unit": "logical steps (evaluation steps counted by the hook + scheduled operations); the system has no clock", "steps": agg.steps}),
    );
    coverage.insert("counters".into(), json!(agg.counters));
    coverage.insert("discarded".into(), json!(agg.discarded));
    coverage.insert(
        "determinism_recheck".into(),
        json!({"seeds": rechecked, "mismatches": recheck_mismatch.len()}),
    );
    coverage.insert("components".into(), engine.components());
    coverage.insert("known_findings_matched".into(), json!(known_matched));
    coverage.insert("worker_processes".into(), json!(nworkers));
    coverage.insert("process_deaths".into(), json!(agg.deaths.len()));
    coverage.insert("new_violation_signatures".into(), json!(new_violations.iter().map(|x| x.0.clone()).collect::<Vec<_>>()));
    coverage.insert("replays".into(), json!(replay_paths));
    coverage.insert("harness_errors".into(), json!(harness_errors));
    let evidence = json!({
        "property_id": prop,
        "tier": tier,
        "seed": base,
        "level": engine.level(),
        "coverage": Value::Object(coverage),
        "assumptions": engine.assumptions(),
        "wall_s": wall,
        "violations": new_violations.len(),
    });
    let evdir = format!("{}/evidence", verif_root());
    let _ = std::fs::create_dir_all(&evdir);
    std::fs::write(
        format!("{}/{}.json", evdir, prop),
        serde_json::to_string_pretty(&evidence).unwrap(),
    )
    .expect("write evidence");

    let zero: Vec<&String> = agg
        .counters
        .iter()
        .filter(|(k, v)| **v == 0 && k.starts_with("probe."))
        .map(|(k, _)| k)
        .collect();
    if !zero.is_empty() {
        println!("[{}] warning: probes never hit: {:?}", prop, zero);
    }
    println!(
        "[{}] {} runs, {} distinct schedules ({} non-trivial), {} steps, {} discarded, {} known-finding signatures, {} new, {:.1}s",
        prop,
        agg.evaluations,
        agg.sched.len(),
        agg.sched_nontrivial.len(),
        agg.steps,
        agg.discarded.values().sum::<u64>(),
        known_matched.len(),
        new_violations.len(),
        wall
    );
    if !harness_errors.is_empty() {
        for e in &harness_errors {
            println!("HARNESS-ERROR: {}", e);
        }
        if exit == 0 {
            return 2;
        }
    }
    exit
}

// --------------------------------------------------------------- minimiser

/// run a case in a child process when it may kill the process
pub fn isolated_execute(engine: &dyn Engine, case: &Value) -> RunResult {
    isolated_execute_if(engine, case, false)
}

/// `force_child`: the case is known to have killed a process (its verdict is a process death):
/// never run it in the coordinator itself, whatever the engine says about its cases in general
pub fn isolated_execute_if(engine: &dyn Engine, case: &Value, force_child: bool) -> RunResult {
    if !engine.may_kill_process() && !force_child {
        return engine.execute(case);
    }
    let dir = std::env::temp_dir().join(format!("ruschm-sim-{}", std::process::id()));
    let _ = std::fs::create_dir_all(&dir);
    let path = dir.join(format!("case-{}.json", fnv64(case.to_string().as_bytes())));
    std::fs::write(&path, case.to_string()).unwrap();
    let exe = std::env::current_exe().unwrap();
    let out = Command::new(exe)
        .arg("runcase")
        .arg(engine.property())
        .arg(&path)
        .output()
        .expect("runcase");
    let _ = std::fs::remove_file(&path);
    let _ = std::fs::remove_dir(&dir);
    let text = String::from_utf8_lossy(&out.stdout).to_string();
    for l in text.lines() {
        if let Some(rest) = l.strip_prefix("RESULT ") {
            if let Ok(v) = serde_json::from_str::<Value>(rest) {
                let mut r = RunResult::default();
                if !v["violation"].is_null() {
                    r.violation = Some(Violation {
                        signature: v["violation"]["signature"].as_str().unwrap_or("").to_string(),
                        detail: v["violation"]["detail"].clone(),
                    });
                }
                r.discarded = v["discarded"].as_str().map(|s| s.to_string());
                r.invalid = v["invalid"].as_str().map(|s| s.to_string());
                r.log = v["log"]
                    .as_array()
                    .map(|a| a.iter().filter_map(|x| x.as_str().map(|s| s.to_string())).collect())
                    .unwrap_or_default();
                return r;
            }
        }
    }
    engine.on_process_death(case, &format!("{:?}", out.status))
}

pub fn result_json(r: &RunResult) -> Value {
    json!({
        "violation": r.violation.as_ref().map(|v| json!({"signature": v.signature, "detail": v.detail})),
        "discarded": r.discarded,
        "invalid": r.invalid,
        "log": r.log,
    })
}

pub fn minimise(engine: &dyn Engine, case: &Value, signature: &str) -> (Value, u64) {
    let mut current = case.clone();
    let mut tried = 0u64;
    let budget: u64 = std::env::var("VERIF_MIN_BUDGET")
        .ok()
        .and_then(|s| s.parse().ok())
        .unwrap_or(if signature.contains("does-not-terminate") { 60 } else { 1500 });
    'outer: loop {
        let cands = engine.shrink(&current);
        for c in cands {
            if tried >= budget {
                break 'outer;
            }
            tried += 1;
            let r = isolated_execute_if(engine, &c, signature.contains("process-death"));
            if r.invalid.is_some() {
                continue;
            }
            if let Some(v) = &r.violation {
                if v.signature == signature {
                    current = c;
                    continue 'outer;
                }
            }
        }
        break;
    }
    (current, tried)
}

// ------------------------------------------------------------------ replay

pub fn replay_main(engine_for: &dyn Fn(&str) -> Option<&'static dyn Engine>, path: &str) -> i32 {
    let text = match std::fs::read_to_string(path) {
        Ok(t) => t,
        Err(e) => {
            println!("cannot read {}: {}", path, e);
            return 2;
        }
    };
    let v: Value = match serde_json::from_str(&text) {
        Ok(v) => v,
        Err(e) => {
            println!("cannot parse {}: {}", path, e);
            return 2;
        }
    };
    let prop = v["property"].as_str().unwrap_or("");
    let engine = match engine_for(prop) {
        Some(e) => e,
        None => {
            println!("no engine for {}", prop);
            return 2;
        }
    };
    let r = isolated_execute_if(engine, &v["case"], v["signature"].as_str().map(|s| s.contains("process-death")).unwrap_or(false));
    for l in &r.log {
        println!("  {}", l);
    }
    match &r.violation {
        Some(viol) => {
            println!("REPRODUCED property={} signature={}", prop, viol.signature);
            println!("  detail: {}", viol.detail);
            1
        }
        None => {
            println!("not reproduced: property={} held on this schedule", prop);
            0
        }
    }
}

/// helpers for shrinkers working on JSON arrays
pub fn without_index(arr: &[Value], i: usize) -> Vec<Value> {
    let mut v = arr.to_vec();
    v.remove(i);
    v
}

pub fn with_field(case: &Value, key: &str, val: Value) -> Value {
    let mut c = case.clone();
    c[key] = val;
    c
}

/// standard list shrinking: drop halves, quarters, then single elements (from the end)
pub fn shrink_list(case: &Value, key: &str) -> Vec<Value> {
    let arr = match case[key].as_array() {
        Some(a) => a.clone(),
        None => return vec![],
    };
    let n = arr.len();
    let mut out = vec![];
    let mut chunk = n / 2;
    while chunk >= 2 {
        let mut start = 0;
        while start < n {
            let end = (start + chunk).min(n);
            let mut v = arr[..start].to_vec();
            v.extend_from_slice(&arr[end..]);
            out.push(with_field(case, key, Value::Array(v)));
            start = end;
        }
        chunk /= 2;
    }
    for i in (0..n).rev() {
        out.push(with_field(case, key, Value::Array(without_index(&arr, i))));
    }
    out
}

// -------------------------------------------------------------- self-check

/// `selfcheck determinism [IDs]`: every seed twice, in different worker processes,
/// at worker counts 1 and 16; event-log hashes must agree.
pub fn selfcheck_main(
    engine_for: &dyn Fn(&str) -> Option<&'static dyn Engine>,
    all: &[&str],
    args: &[String],
) -> i32 {
    if args.first().map(|s| s.as_str()) != Some("determinism") {
        println!("usage: selfcheck determinism [ID...]");
        return 2;
    }
    let ids: Vec<String> = if args.len() > 1 {
        args[1..].to_vec()
    } else {
        all.iter().map(|s| s.to_string()).collect()
    };
    let n: u64 = std::env::var("VERIF_SELFCHECK_SEEDS")
        .ok()
        .and_then(|s| s.parse().ok())
        .unwrap_or(2000);
    let base = base_seed();
    let mut bad = 0;
    for id in ids {
        let Some(engine) = engine_for(&id) else { continue };
        let prop = engine.property();
        let run = |workers: u64| -> BTreeMap<u64, String> {
            let mut hs = vec![];
            for w in 0..workers {
                hs.push(std::thread::spawn(move || run_worker_slot(prop, "quick", base, w, workers, n, 1000)));
            }
            let mut agg = Aggregate::default();
            for h in hs {
                for (rep, _) in h.join().unwrap() {
                    absorb(&mut agg, &rep);
                }
            }
            agg.log_hashes
        };
        let a = run(1);
        let b = run(16);
        let c = run(5);
        let mut mism = 0;
        for (i, h) in &a {
            if b.get(i) != Some(h) || c.get(i) != Some(h) {
                mism += 1;
            }
        }
        println!(
            "[selfcheck] {}: {} seeds x 3 (1, 16 and 5 worker processes), {} mismatches, {} missing",
            prop,
            a.len(),
            mism,
            n as usize - a.len().min(n as usize)
        );
        // a seed may be missing when its run kills the process (outside the claim for some
        // engines); that, too, must be the same in all three configurations
        let same_missing = a.keys().eq(b.keys()) && a.keys().eq(c.keys());
        if mism > 0 || !same_missing {
            bad += 1;
        }
    }
    if bad > 0 { 2 } else { 0 }
}
