//! Process-level I/O seams: the worker's protocol channel, capturing what the
//! in-process interpreter prints (fd 1 -> memfd), running the real binary as a
//! child with pipes, and driving a child's stdin in lock-step.

use std::fs::File;
use std::io::{Read, Seek, SeekFrom, Write};
use std::os::unix::io::{AsRawFd, FromRawFd, RawFd};
use std::path::Path;
use std::process::{Child, Command, Stdio};
use std::time::{Duration, Instant};

/// duplicate fd 1 for the protocol and point fd 1 at /dev/null
pub fn take_over_stdout() -> File {
    unsafe {
        let dup = libc::dup(1);
        assert!(dup >= 0, "dup(1)");
        let null = libc::open(b"/dev/null\0".as_ptr() as *const libc::c_char, libc::O_WRONLY);
        assert!(null >= 0, "open /dev/null");
        libc::dup2(null, 1);
        libc::close(null);
        File::from_raw_fd(dup)
    }
}

/// run `f` with fd 1 redirected to a memfd; returns f's result and the bytes written
pub fn capture_stdout<T>(f: impl FnOnce() -> T) -> (T, Vec<u8>) {
    unsafe {
        let _ = std::io::stdout().flush();
        let fd = libc::memfd_create(b"ruschm-sim-capture\0".as_ptr() as *const libc::c_char, 0);
        assert!(fd >= 0, "memfd_create");
        let saved = libc::dup(1);
        libc::dup2(fd, 1);
        let r = f();
        let _ = std::io::stdout().flush();
        libc::dup2(saved, 1);
        libc::close(saved);
        let mut file = File::from_raw_fd(fd);
        let mut buf = vec![];
        let _ = file.seek(SeekFrom::Start(0));
        let _ = file.read_to_end(&mut buf);
        (r, buf)
    }
}

pub struct ChildResult {
    pub stdout: Vec<u8>,
    pub stderr: Vec<u8>,
    pub code: Option<i32>,
    pub signal: Option<i32>,
    pub timed_out: bool,
}

pub fn cli_path() -> String {
    std::env::var("VERIF_CLI").unwrap_or_else(|_| "/verif/target/cli/release/ruschm".to_string())
}

pub fn preload_path() -> String {
    std::env::var("VERIF_PRELOAD")
        .unwrap_or_else(|_| "/verif/target/preload/release/libruschm_preload.so".to_string())
}

pub fn cli_command(cwd: &Path, hash_seed: u64) -> Command {
    let mut c = Command::new(cli_path());
    c.env_clear()
        .env("LD_PRELOAD", preload_path())
        .env("RUSCHM_VERIF_HASH_SEED", hash_seed.to_string())
        .current_dir(cwd);
    c
}

/// run the binary to completion with stdin closed
pub fn run_cli(cwd: &Path, hash_seed: u64, args: &[String], timeout: Duration) -> std::io::Result<ChildResult> {
    run_cli_opt(cwd, hash_seed, args, timeout, false)
}

/// ... optionally in a working directory that has been removed by the time the program
/// starts (the child removes it between chdir and exec): asking for the working directory
/// then fails
pub fn run_cli_opt(cwd: &Path, hash_seed: u64, args: &[String], timeout: Duration, remove_cwd: bool) -> std::io::Result<ChildResult> {
    let mut c = cli_command(cwd, hash_seed);
    if remove_cwd {
        use std::os::unix::ffi::OsStrExt;
        use std::os::unix::process::CommandExt;
        let path = std::ffi::CString::new(cwd.as_os_str().as_bytes()).map_err(|e| std::io::Error::new(std::io::ErrorKind::InvalidInput, e))?;
        unsafe {
            c.pre_exec(move || {
                if libc::rmdir(path.as_ptr()) != 0 {
                    return Err(std::io::Error::last_os_error());
                }
                Ok(())
            });
        }
    }
    c.args(args).stdin(Stdio::null()).stdout(Stdio::piped()).stderr(Stdio::piped());
    let mut child = c.spawn()?;
    let mut out = child.stdout.take().unwrap();
    let mut err = child.stderr.take().unwrap();
    let t_out = std::thread::spawn(move || {
        let mut b = vec![];
        let _ = out.read_to_end(&mut b);
        b
    });
    let t_err = std::thread::spawn(move || {
        let mut b = vec![];
        let _ = err.read_to_end(&mut b);
        b
    });
    let (status, timed_out) = wait_with_timeout(&mut child, timeout);
    let stdout = t_out.join().unwrap_or_default();
    let stderr = t_err.join().unwrap_or_default();
    use std::os::unix::process::ExitStatusExt;
    Ok(ChildResult {
        stdout,
        stderr,
        code: status.and_then(|s| s.code()),
        signal: status.and_then(|s| s.signal()),
        timed_out,
    })
}

pub fn wait_with_timeout(child: &mut Child, timeout: Duration) -> (Option<std::process::ExitStatus>, bool) {
    let t0 = Instant::now();
    loop {
        match child.try_wait() {
            Ok(Some(s)) => return (Some(s), false),
            Ok(None) => {
                if t0.elapsed() > timeout {
                    let _ = child.kill();
                    let s = child.wait().ok();
                    return (s, true);
                }
                std::thread::sleep(Duration::from_micros(200));
            }
            Err(_) => return (None, false),
        }
    }
}

pub fn strip_ansi(bytes: &[u8]) -> String {
    let s = String::from_utf8_lossy(bytes).to_string();
    let mut out = String::new();
    let mut chars = s.chars().peekable();
    while let Some(c) = chars.next() {
        if c == '\u{1b}' {
            if chars.peek() == Some(&'[') {
                chars.next();
                while let Some(n) = chars.next() {
                    if n.is_ascii_alphabetic() {
                        break;
                    }
                }
            }
        } else {
            out.push(c);
        }
    }
    out
}

// ------------------------------------------------------------- lock-step user

pub struct Session {
    pub child: Child,
    stdin_fd: Option<RawFd>,
    stdin: Option<std::process::ChildStdin>,
    stdout: std::process::ChildStdout,
    stderr: std::process::ChildStderr,
    pub pid: u32,
}

fn set_nonblocking(fd: RawFd) {
    unsafe {
        let fl = libc::fcntl(fd, libc::F_GETFL);
        libc::fcntl(fd, libc::F_SETFL, fl | libc::O_NONBLOCK);
    }
}

fn read_available(fd: RawFd) -> Vec<u8> {
    let mut out = vec![];
    let mut buf = [0u8; 4096];
    loop {
        let n = unsafe { libc::read(fd, buf.as_mut_ptr() as *mut libc::c_void, buf.len()) };
        if n > 0 {
            out.extend_from_slice(&buf[..n as usize]);
        } else {
            break;
        }
    }
    out
}

#[derive(Debug)]
pub enum SyncError {
    Timeout,
    ProcUnreadable(String),
    Exited,
}

impl Session {
    pub fn start(cwd: &Path, hash_seed: u64) -> std::io::Result<Session> {
        let mut c = cli_command(cwd, hash_seed);
        c.stdin(Stdio::piped()).stdout(Stdio::piped()).stderr(Stdio::piped());
        let mut child = c.spawn()?;
        let stdin = child.stdin.take().unwrap();
        let stdout = child.stdout.take().unwrap();
        let stderr = child.stderr.take().unwrap();
        set_nonblocking(stdout.as_raw_fd());
        set_nonblocking(stderr.as_raw_fd());
        let pid = child.id();
        Ok(Session {
            child,
            stdin_fd: Some(stdin.as_raw_fd()),
            stdin: Some(stdin),
            stdout,
            stderr,
            pid,
        })
    }

    /// is the child blocked in read(0, ...)?
    fn blocked_in_read_stdin(&self) -> Result<bool, SyncError> {
        let path = format!("/proc/{}/syscall", self.pid);
        match std::fs::read_to_string(&path) {
            Ok(s) => {
                let mut it = s.split_whitespace();
                let nr = it.next().unwrap_or("");
                let a0 = it.next().unwrap_or("");
                Ok(nr == "0" && (a0 == "0x0" || a0 == "0"))
            }
            Err(e) => {
                if !Path::new(&format!("/proc/{}", self.pid)).exists() {
                    Err(SyncError::Exited)
                } else {
                    Err(SyncError::ProcUnreadable(format!("{}: {}", path, e)))
                }
            }
        }
    }

    fn unread_input(&self) -> i32 {
        let mut n: libc::c_int = 0;
        if let Some(fd) = self.stdin_fd {
            unsafe {
                libc::ioctl(fd, libc::FIONREAD, &mut n);
            }
        }
        n
    }

    /// wait until the child has taken all input and waits for more; then collect output
    pub fn settle(&mut self, timeout: Duration) -> Result<(Vec<u8>, Vec<u8>), SyncError> {
        let t0 = Instant::now();
        let mut spins = 0u32;
        let mut out: Vec<u8> = vec![];
        let mut err: Vec<u8> = vec![];
        loop {
            if let Ok(Some(_)) = self.child.try_wait() {
                return Err(SyncError::Exited);
            }
            // keep the pipes drained: a child that prints more than a pipe holds would
            // otherwise block in write and never come back to read
            out.extend(read_available(self.stdout.as_raw_fd()));
            err.extend(read_available(self.stderr.as_raw_fd()));
            if self.unread_input() == 0 && self.blocked_in_read_stdin()? {
                // checked in this order the two conditions are race-free
                out.extend(read_available(self.stdout.as_raw_fd()));
                err.extend(read_available(self.stderr.as_raw_fd()));
                return Ok((out, err));
            }
            if t0.elapsed() > timeout {
                return Err(SyncError::Timeout);
            }
            spins += 1;
            if spins < 50 {
                std::thread::yield_now();
            } else {
                std::thread::sleep(Duration::from_micros(100));
            }
        }
    }

    pub fn send_line(&mut self, line: &str) -> std::io::Result<()> {
        // a line longer than the pipe's capacity is taken by the child piece by piece
        let mut data = line.as_bytes().to_vec();
        data.push(b'\n');
        let s = self.stdin.as_mut().expect("stdin open");
        for chunk in data.chunks(16 * 1024) {
            s.write_all(chunk)?;
        }
        s.flush()
    }

    /// write text without a line terminator
    pub fn send_raw(&mut self, text: &str) -> std::io::Result<()> {
        let s = self.stdin.as_mut().expect("stdin open");
        for chunk in text.as_bytes().chunks(16 * 1024) {
            s.write_all(chunk)?;
        }
        s.flush()
    }

    /// close stdin (EOF), wait for the exit, return the rest of both streams
    pub fn finish(mut self, timeout: Duration) -> (Vec<u8>, Vec<u8>, Option<i32>, bool) {
        self.stdin.take();
        self.stdin_fd = None;
        // keep draining while waiting: a child with more to say than a pipe holds cannot exit
        let t0 = Instant::now();
        let mut out: Vec<u8> = vec![];
        let mut err: Vec<u8> = vec![];
        let mut status = None;
        let mut timed_out = false;
        loop {
            out.extend(read_available(self.stdout.as_raw_fd()));
            err.extend(read_available(self.stderr.as_raw_fd()));
            match self.child.try_wait() {
                Ok(Some(s)) => {
                    status = Some(s);
                    break;
                }
                Ok(None) => {}
                Err(_) => break,
            }
            if t0.elapsed() > timeout {
                let _ = self.child.kill();
                status = self.child.wait().ok();
                timed_out = true;
                break;
            }
            std::thread::sleep(Duration::from_micros(200));
        }
        out.extend(read_available(self.stdout.as_raw_fd()));
        err.extend(read_available(self.stderr.as_raw_fd()));
        (out, err, status.and_then(|s| s.code()), timed_out)
    }
}
