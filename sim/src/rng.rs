//! The one source of randomness of the simulator: splitmix64 to derive seeds,
//! xoshiro256** for the per-run stream. Nothing here reads a clock or the OS.

pub fn splitmix64(x: u64) -> u64 {
    let mut z = x.wrapping_add(0x9E37_79B9_7F4A_7C15);
    z = (z ^ (z >> 30)).wrapping_mul(0xBF58_476D_1CE4_E5B9);
    z = (z ^ (z >> 27)).wrapping_mul(0x94D0_49BB_1331_11EB);
    z ^ (z >> 31)
}

/// FNV-1a over bytes; used to mix property ids into seeds and to fingerprint logs.
pub fn fnv64(bytes: &[u8]) -> u64 {
    let mut h: u64 = 0xcbf2_9ce4_8422_2325;
    for b in bytes {
        h ^= *b as u64;
        h = h.wrapping_mul(0x0000_0100_0000_01B3);
    }
    h
}

pub fn run_seed(base: u64, property: &str, index: u64) -> u64 {
    splitmix64(base ^ fnv64(property.as_bytes()) ^ splitmix64(index))
}

#[derive(Clone, Debug)]
pub struct Rng {
    s: [u64; 4],
    pub draws: u64,
}

impl Rng {
    pub fn new(seed: u64) -> Self {
        let mut x = seed;
        let mut s = [0u64; 4];
        for slot in s.iter_mut() {
            x = splitmix64(x);
            *slot = x;
        }
        if s == [0, 0, 0, 0] {
            s[0] = 1;
        }
        Rng { s, draws: 0 }
    }
    pub fn next_u64(&mut self) -> u64 {
        self.draws += 1;
        let result = self.s[1].wrapping_mul(5).rotate_left(7).wrapping_mul(9);
        let t = self.s[1] << 17;
        self.s[2] ^= self.s[0];
        self.s[3] ^= self.s[1];
        self.s[1] ^= self.s[2];
        self.s[0] ^= self.s[3];
        self.s[2] ^= t;
        self.s[3] = self.s[3].rotate_left(45);
        result
    }
    /// uniform in 0..n (n>0)
    pub fn below(&mut self, n: u64) -> u64 {
        debug_assert!(n > 0);
        // multiply-shift; bias is irrelevant here
        ((self.next_u64() as u128 * n as u128) >> 64) as u64
    }
    pub fn upto(&mut self, n: usize) -> usize {
        self.below(n as u64) as usize
    }
    /// inclusive range
    pub fn range(&mut self, lo: i64, hi: i64) -> i64 {
        debug_assert!(hi >= lo);
        lo + self.below((hi - lo + 1) as u64) as i64
    }
    pub fn chance(&mut self, num: u64, den: u64) -> bool {
        self.below(den) < num
    }
    pub fn pick<'a, T>(&mut self, xs: &'a [T]) -> &'a T {
        &xs[self.upto(xs.len())]
    }
    pub fn pick_weighted(&mut self, weights: &[u32]) -> usize {
        let total: u64 = weights.iter().map(|w| *w as u64).sum();
        debug_assert!(total > 0);
        let mut r = self.below(total);
        for (i, w) in weights.iter().enumerate() {
            if r < *w as u64 {
                return i;
            }
            r -= *w as u64;
        }
        weights.len() - 1
    }
    pub fn shuffle<T>(&mut self, xs: &mut [T]) {
        for i in (1..xs.len()).rev() {
            let j = self.upto(i + 1);
            xs.swap(i, j);
        }
    }
    /// derive an independent child stream
    pub fn fork(&mut self) -> Rng {
        Rng::new(self.next_u64())
    }
}
