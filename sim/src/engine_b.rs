//! Engine B, "library-world": a generated world of user libraries (files under a
//! program directory and/or registered sources), a decoy working directory, and a
//! history of imports, driver-level probes and program forms on one interpreter.
//! Fault-free configuration = C13 (encapsulation, one instance), fault-injecting
//! configuration = C14 (library health faults, cycles, heal/break events).

use crate::framework::*;
use crate::hashseed::{guarded, on_fresh_thread, ThreadOutcome};
use crate::observe::*;
use crate::refint::{LibEntry, Machine, NativeVal, RErr, RV, BUILTINS};
use crate::rng::{fnv64, Rng};
use crate::sexp::{parse_one, Sx};
use ruschm::interpreter::{Interpreter, LibraryFactory};
use serde_json::{json, Value};
use std::collections::{BTreeMap, BTreeSet};
use std::path::{Path, PathBuf};

pub struct EngineB {
    pub faults: bool,
}
pub static ENGINE_C13: EngineB = EngineB { faults: false };
pub static ENGINE_C14: EngineB = EngineB { faults: true };

// library names are identifiers: punctuation is as good as letters, in the name and in the file name
const SHORTS: &[&str] = &["a", "b", "c?", "d->e"];
const HEALTH_KINDS: &[&str] = &[
    "healthy",
    "missing",
    "wrong-name",
    "faulting-body",
    "broken-syntax",
    "not-utf8",
    "directory",
    "empty",
    "truncated",
    "dangling-symlink",
    "exports-undefined",
];

fn key_of(short: &str) -> String {
    format!("(lib {})", short)
}

/// library specification, JSON: {short, imports:[short], health, delivery, start, k, fault, renames:bool, cut, variant}
pub fn lib_source(spec: &Value) -> String {
    if spec["native"].as_bool().unwrap_or(false) {
        return String::new();
    }
    if spec["noexport"].as_bool().unwrap_or(false) {
        // definitions, and no export declaration at all: the library exposes nothing
        return "(define-library (lib noexp)\n  (import (scheme base))\n  (begin\n    (define weight 5)\n    (define (list . x) 'noexp-private)\n    (define (weigh) (+ weight 1))))\n".to_string();
    }
    if spec["lookalike"].as_bool().unwrap_or(false) {
        // two libraries whose names are written differently and print alike: (lib u v) and
        // (lib |u v|) are different libraries with different files
        let tag = spec["tag"].as_str().unwrap_or("uv");
        return format!(
            "(define-library {}\n  (import (scheme base))\n  (export {t}-next! {t}-look)\n  (begin (define n {}) (define ({t}-next!) (set! n (+ n 1)) n) (define ({t}-look) n)))\n",
            key_of(spec["short"].as_str().unwrap_or("u v")),
            spec["start"].as_i64().unwrap_or(0),
            t = tag
        );
    }
    if spec["void"].as_bool().unwrap_or(false) {
        // a library that exports nothing at all: imported for its effects, any number of times
        return "(define-library (lib void)\n  (import (scheme base))\n  (export)\n  (begin (define unused 1)))\n".to_string();
    }
    if spec["spo"].as_bool().unwrap_or(false) {
        // a library one of whose procedures ASSIGNS a name the library imported (an error by the
        // report: an implementation may refuse the library when it loads it, refuse the
        // assignment when it happens, or let it change that library's own view) - never
        // anybody else's view
        return "(define-library (lib spo)\n  (import (scheme base))\n  (export spoil! spo-plus)\n  (begin (define (spoil!) (set! + -) 0) (define (spo-plus x) (+ x 1))))\n".to_string();
    }
    if spec["ovr"].as_bool().unwrap_or(false) {
        // a library that defines, and exports, a name it also imported, and defines a name of
        // its own again in a later block: what it exports are its own, final definitions,
        // wherever the export declaration stands. (Redefining an imported name is an error by
        // the report, so an implementation may refuse the library: its import is not judged.)
        let imp = "(import (scheme base))";
        let exp = "(export (rename abs own-abs) (rename stage stage-ovr) ovr-count)";
        let b1 = "(begin (define stage 1) (define calls 0))";
        let b2 = "(begin (define (abs x) (set! calls (+ calls 1)) (+ x 50)) (define (ovr-count) calls) (define stage 2))";
        let decls = match spec["decl_shape"].as_u64().unwrap_or(0) % 3 {
            0 => [imp, exp, b1, b2],
            1 => [imp, b1, exp, b2],
            _ => [imp, b1, b2, exp],
        };
        return format!("(define-library (lib ovr)\n  {})\n", decls.join("\n  "));
    }
    if spec["bare"].as_bool().unwrap_or(false) {
        // a library without any import declaration: its environment is empty but for its own
        // definitions, whatever the importer has
        return format!(
            "(define-library (lib bare)\n  (export bare-secret bare-get bare-set! bare-car)\n  (begin\n    (define kept {})\n    (define (bare-secret) secret)\n    (define (bare-get) kept)\n    (define (bare-set! v) (set! kept v) v)\n    (define (bare-car) car)))\n",
            spec["start"].as_i64().unwrap_or(0)
        );
    }
    let s = spec["short"].as_str().unwrap();
    let imports: Vec<String> = spec["imports"]
        .as_array()
        .map(|a| a.iter().filter_map(|x| x.as_str().map(|s| s.to_string())).collect())
        .unwrap_or_default();
    let renames = spec["renames"].as_bool().unwrap_or(false);
    let mut import_sets = vec!["(scheme base)".to_string()];
    for j in &imports {
        if j == "void" {
            import_sets.push(key_of(j));
            continue;
        }
        // dependencies are imported directly or through an import-set operator
        import_sets.push(match dep_style(spec, j) {
            1 => format!("(prefix {} {}:)", key_of(j), j),
            2 => format!("(only {} next-{}!)", key_of(j), j),
            3 => format!("(rename {} (next-{}! nx-{}))", key_of(j), j, j),
            _ => key_of(j),
        });
    }
    let mut exports = vec![format!("next-{}!", s)];
    if renames {
        exports.push(format!("(rename peek-{} look-{})", s, s));
    } else {
        exports.push(format!("look-{}", s));
    }
    exports.push(format!("use-helper-{}", s));
    exports.push(format!("use-plus-{}", s));
    exports.push(format!("peek-secret-{}", s));
    let peek_internal = if renames { format!("peek-{}", s) } else { format!("look-{}", s) };
    let mut body = vec![
        format!("(define n {})", spec["start"].as_i64().unwrap_or(0)),
        format!("(define (helper x) (+ x {}))", spec["k"].as_i64().unwrap_or(1)),
        format!("(define (next-{}!) (set! n (+ n 1)) n)", s),
        format!("(define ({}) n)", peek_internal),
        format!("(define (use-helper-{} x) (helper x))", s),
        format!("(define (use-plus-{} x) (+ x 1))", s),
        format!("(define (peek-secret-{}) secret)", s),
    ];
    for j in imports.iter().filter(|j| j.as_str() != "void") {
        // only meaningful when the dependency is healthy; harmless otherwise
        exports.push(format!("via-{}-{}", s, j));
        body.push(format!("(define (via-{}-{}) ({}))", s, j, dep_next_name(spec, j)));
    }
    // a library that assigns one of ITS imported names (an error by the report; an
    // implementation may refuse it or let it change that library's own view) — never anybody else's

    // `twice` is a private macro in some libraries and a private procedure in the others:
    // what one library file defines as syntax is nobody else's business
    if spec["macro"].as_bool().unwrap_or(false) {
        body.push("(define-syntax twice (syntax-rules () ((twice x) (+ x x))))".to_string());
    } else {
        body.push("(define (twice x) (* x 3))".to_string());
    }
    body.push(format!("(define (use-twice-{} x) (twice x))", s));
    exports.push(format!("use-twice-{}", s));
    // export renames whose external name is also bound inside the library, and a swap
    if spec["collide"].as_bool().unwrap_or(false) {
        body.push(format!("(define (aux-{} x) (+ x 5))", s));
        body.push(format!("(define (use-aux-{} x) (aux-{} x))", s, s));
        body.push(format!("(define (hi-{}) 'internal-high)", s));
        body.push(format!("(define (lo-{}) 'internal-low)", s));
        exports.push(format!("use-aux-{}", s));
        exports.push(format!("(rename {} aux-{})", peek_internal, s));
        exports.push(format!("(rename hi-{} lo-{})", s, s));
        exports.push(format!("(rename lo-{} hi-{})", s, s));
    }
    // one binding under two external names; a procedure that hands out a PRIVATE procedure
    if spec["twins"].as_bool().unwrap_or(false) {
        exports.push(format!("(rename next-{}! again-{}!)", s, s));
        body.push(format!("(define (get-helper-{}) helper)", s));
        exports.push(format!("get-helper-{}", s));
    }
    // a body that has an effect while it is being loaded: it calls a dependency's procedure,
    // once, in the order of the definitions
    if spec["load_effect"].as_bool().unwrap_or(false) {
        if let Some(j) = imports.iter().find(|j| j.as_str() != "zz" && j.as_str() != s && j.as_str() != "void") {
            body.push(format!("(define loaded-{} ({}))", s, dep_next_name(spec, j)));
            exports.push(format!("loaded-{}", s));
        }
    }
    // an expression with an effect in the middle of the block, and a definition after it that
    // records what it sees: the forms of a block are evaluated in the order written
    if spec["body_expr"].as_bool().unwrap_or(false) {
        body.push("(set! n (+ n 5))".to_string());
        body.push(format!("(define snap-{} n)", s));
        exports.push(format!("snap-{}", s));
    }
    // an exported constant, and (optionally) a re-export of a dependency's procedure
    exports.push(format!("(rename k const-{})", s));
    body.push(format!("(define k {})", 700 + spec["k"].as_i64().unwrap_or(1)));
    if let Some(j) = reexport_target(spec) {
        exports.push(format!("(rename {} bump-{}-from-{})", dep_next_name(spec, &j), j, s));
    }
    if spec["health"].as_str() == Some("exports-undefined") {
        // the export list names something the body never defines: the library cannot be made
        exports.push(format!("never-defined-{}", s));
    }
    if spec["health"].as_str() == Some("faulting-body") {
        let fault = spec["fault"].as_str().unwrap_or("(car 5)");
        body.push(format!("(define boom {})", fault));
    }
    let name = if spec["health"].as_str() == Some("wrong-name") {
        format!("(lib {}-other)", s)
    } else {
        key_of(s)
    };
    // the declarations of a library may come in several pieces and in other orders (imports
    // stay ahead of the definitions that use them)
    let imp = format!("(import {})", import_sets.join(" "));
    let exp = |e: &[String]| format!("(export {})", e.join(" "));
    let beg = |b: &[String]| format!("(begin\n    {})", b.join("\n    "));
    let decls: Vec<String> = match spec["decl_shape"].as_u64().unwrap_or(0) {
        2 => vec![exp(&exports), imp, beg(&body)],
        3 => {
            let mut d = vec![format!("(import {})", import_sets[0])];
            if import_sets.len() > 1 {
                d.push(format!("(import {})", import_sets[1..].join(" ")));
            }
            let (e1, e2) = exports.split_at(exports.len() / 2);
            let (b1, b2) = body.split_at(body.len() / 2);
            d.extend([exp(e1), beg(b1), exp(e2), beg(b2)]);
            d
        }
        4 => vec![imp, beg(&body), exp(&exports)],
        5 => {
            let mut d = vec![imp, exp(&exports)];
            d.extend(body.iter().map(|b| format!("(begin {})", b)));
            d
        }
        _ => vec![imp, exp(&exports), beg(&body)],
    };
    format!("(define-library {}\n  {})\n", name, decls.join("\n  "))
}

/// how library `spec` imports its dependency `j`: 0 direct, 1 prefix, 2 only, 3 rename
fn dep_style(spec: &Value, j: &str) -> u64 {
    let s = spec["short"].as_str().unwrap_or("");
    if j == s {
        return 0; // a self-import stays plain
    }
    let base = spec["dep_style"].as_u64().unwrap_or(0);
    (base + j.as_bytes().first().copied().unwrap_or(0) as u64) % 4
}

fn dep_next_name(spec: &Value, j: &str) -> String {
    match dep_style(spec, j) {
        1 => format!("{}:next-{}!", j, j),
        3 => format!("nx-{}", j),
        _ => format!("next-{}!", j),
    }
}

fn reexport_target(spec: &Value) -> Option<String> {
    if !spec["reexport"].as_bool().unwrap_or(false) {
        return None;
    }
    let s = spec["short"].as_str().unwrap_or("");
    spec["imports"]
        .as_array()
        .and_then(|a| a.iter().filter_map(|x| x.as_str()).find(|j| *j != "zz" && *j != s && *j != "void").map(|j| j.to_string()))
}

/// bytes of the library file for its health; None = no regular file is written
fn lib_file_bytes(spec: &Value) -> Option<Vec<u8>> {
    let text = lib_source(spec);
    let cut = spec["cut"].as_u64().unwrap_or(10) as usize;
    // the define-library form spans from byte 0 to the last ')'
    let form_len = text.trim_end().len();
    match spec["health"].as_str().unwrap_or("healthy") {
        "healthy" | "wrong-name" | "faulting-body" | "exports-undefined" => {
            // a library file is searched for the library it is asked for: other libraries and
            // ordinary forms before it are passed over
            let s = spec["short"].as_str().unwrap_or("a");
            let before = match spec["layout"].as_u64().unwrap_or(0) {
                3 => format!("(define-library (lib other-{s})\n (import (scheme base))\n (export look-{s})\n (begin (define (look-{s}) 'decoy)))\n", s = s),
                4 => format!("; helpers kept next to the library\n(define look-{s} 'decoy)\n(display \"never evaluated\")\n", s = s),
                5 => format!("(define-library (other {s})\n (import (scheme base))\n (export look-{s})\n (begin (define (look-{s}) 'decoy)))\n", s = s),
                // a draft of ANOTHER library of this world (or of one that exists nowhere) kept in
                // this file: it is not what an import of that library means
                6 | 7 => decoy_source(spec["layout_other"].as_str().unwrap_or("zz")),
                _ => String::new(),
            };
            if spec["layout"].as_u64() == Some(7) {
                Some(format!("{}{}", text, before).into_bytes())
            } else {
                Some(format!("{}{}", before, text).into_bytes())
            }
        }
        "missing" | "directory" | "dangling-symlink" => None,
        "empty" => Some(vec![]),
        "broken-syntax" => {
            let v = spec["variant"].as_u64().unwrap_or(0) % 3;
            Some(
                match v {
                    0 => format!("){}", text),
                    1 => text.replacen("(export ", "(export (rename onlyone) ", 1),
                    _ => text.replacen("(begin", "(begin #<", 1),
                }
                .into_bytes(),
            )
        }
        "not-utf8" => {
            let mut b = text.into_bytes();
            let at = 1 + cut % (form_len - 2);
            b.insert(at, 0xFF);
            Some(b)
        }
        "truncated" => {
            let b = text.into_bytes();
            let at = 1 + cut % (form_len - 1);
            Some(b[..at].to_vec())
        }
        _ => Some(text.into_bytes()),
    }
}

fn decoy_source(short: &str) -> String {
    // same names, marker values: must never be observed
    format!(
        "(define-library (lib {s})\n (import (scheme base))\n (export next-{s}! look-{s} use-helper-{s} use-plus-{s} peek-secret-{s})\n (begin (define (next-{s}!) 'decoy) (define (look-{s}) 'decoy) (define (use-helper-{s} x) 'decoy) (define (use-plus-{s} x) 'decoy) (define (peek-secret-{s}) 'decoy)))\n",
        s = short
    )
}

fn write_world(prog: &Path, libs: &[Value]) {
    let dir = prog.join("lib");
    let _ = std::fs::create_dir_all(&dir);
    for spec in libs {
        write_lib(prog, spec);
    }
}

fn write_lib(prog: &Path, spec: &Value) {
    let dir = prog.join("lib");
    let s = spec["short"].as_str().unwrap();
    let path = match spec["file"].as_str() {
        Some(f) => dir.join(f),
        None => dir.join(format!("{}.sld", s)),
    };
    if let Some(parent) = path.parent() {
        let _ = std::fs::create_dir_all(parent);
    }
    // remove whatever was there
    if let Ok(md) = std::fs::symlink_metadata(&path) {
        if md.is_dir() {
            let _ = std::fs::remove_dir_all(&path);
        } else {
            let _ = std::fs::remove_file(&path);
        }
    }
    if spec["delivery"].as_str() == Some("registered") {
        return;
    }
    match spec["health"].as_str().unwrap_or("healthy") {
        "directory" => {
            let _ = std::fs::create_dir_all(&path);
        }
        "dangling-symlink" => {
            let _ = std::os::unix::fs::symlink(dir.join("no-such-target.sld"), &path);
        }
        _ => {
            if let Some(b) = lib_file_bytes(spec) {
                std::fs::write(&path, b).expect("write library");
            }
        }
    }
}

fn register_libs(it: &mut Interpreter<'static, f32>, libs: &[Value]) -> Result<(), String> {
    for spec in libs {
        if spec["native"].as_bool().unwrap_or(false) {
            // natively provided: every call of the factory makes a NEW box; one instance per
            // interpreter means the factory's product is shared by everything that imports it
            let start = spec["start"].as_i64().unwrap_or(0) as i32;
            it.register_library_factory(LibraryFactory::Native(
                library_name_of(&["lib", "nat"]),
                Box::new(move || {
                    vec![(
                        "nat-box".to_string(),
                        ruschm::values::Value::Vector(ruschm::values::ValueReference::new_mutable(vec![
                            ruschm::values::Value::Number(ruschm::values::Number::Integer(start)),
                        ])),
                    )]
                }),
            ));
            continue;
        }
        if spec["delivery"].as_str() == Some("registered") {
            let health = spec["health"].as_str().unwrap_or("healthy");
            if health == "missing" {
                continue;
            }
            let s = spec["short"].as_str().unwrap();
            let comps: Vec<String> = match spec["components"].as_array() {
                Some(a) => a.iter().filter_map(|x| x.as_str().map(|s| s.to_string())).collect(),
                None => vec!["lib".to_string(), s.to_string()],
            };
            let comps_ref: Vec<&str> = comps.iter().map(|s| s.as_str()).collect();
            let name = library_name_of(&comps_ref);
            let text = lib_source(spec);
            match LibraryFactory::from_char_stream(&name, text.chars()) {
                Ok(f) => it.register_library_factory(f),
                Err(e) => return Err(format!("registration of {} rejected: {}", s, e)),
            }
        }
    }
    Ok(())
}

// ------------------------------------------------------------------ model side

fn base_entry() -> LibEntry {
    LibEntry::Native(
        BUILTINS
            .iter()
            .map(|(n, _, _)| (n.to_string(), NativeVal::Builtin(n.to_string())))
            .collect(),
    )
}

fn model_world(libs: &[Value]) -> BTreeMap<String, LibEntry> {
    let mut w = BTreeMap::new();
    w.insert("(scheme base)".to_string(), base_entry());
    for spec in libs {
        let s = spec["short"].as_str().unwrap();
        let health = spec["health"].as_str().unwrap_or("healthy");
        if spec["native"].as_bool().unwrap_or(false) {
            w.insert(
                key_of(s),
                LibEntry::Native(vec![("nat-box".to_string(), NativeVal::IntVector(vec![spec["start"].as_i64().unwrap_or(0)]))]),
            );
            continue;
        }
        match health {
            "healthy" | "faulting-body" => {
                w.insert(key_of(s), LibEntry::Def(parse_one(&lib_source(spec)).expect("library text parses")));
            }
            _ => {}
        }
    }
    w
}

/// which error classes may an import of `root` end in, given the graph as it is?
/// Returns (causes, readable reachable nodes). Empty causes = must succeed.
fn analyse(libs: &[Value], root: &str) -> BTreeSet<String> {
    let by: BTreeMap<String, &Value> = libs
        .iter()
        .map(|l| (l["short"].as_str().unwrap().to_string(), l))
        .collect();
    let mut causes = BTreeSet::new();
    let mut seen: BTreeSet<String> = BTreeSet::new();
    let mut stack = vec![root.to_string()];
    let mut readable: BTreeSet<String> = BTreeSet::new();
    while let Some(n) = stack.pop() {
        if !seen.insert(n.clone()) {
            continue;
        }
        let Some(spec) = by.get(&n) else {
            causes.insert(format!("LibNotFound({})", key_of(&n)));
            continue;
        };
        let health = spec["health"].as_str().unwrap_or("healthy");
        let registered = spec["delivery"].as_str() == Some("registered");
        match health {
            "healthy" | "faulting-body" | "exports-undefined" => {
                readable.insert(n.clone());
                if health == "faulting-body" {
                    causes.insert(spec["fault_kind"].as_str().unwrap_or("Type").to_string());
                }
                if health == "exports-undefined" {
                    causes.insert(format!("Unbound(never-defined-{})", n));
                }
                if let Some(im) = spec["imports"].as_array() {
                    for j in im {
                        stack.push(j.as_str().unwrap().to_string());
                    }
                }
            }
            "missing" | "wrong-name" | "empty" | "dangling-symlink" => {
                causes.insert(format!("LibNotFound({})", key_of(&n)));
            }
            "broken-syntax" | "truncated" => {
                causes.insert("Syntax".into());
            }
            "not-utf8" | "directory" => {
                causes.insert("Io".into());
            }
            _ => {}
        }
        let _ = registered;
    }
    // a cycle inside the readable reachable subgraph (self-loops included)
    let mut color: BTreeMap<String, u8> = BTreeMap::new();
    fn dfs(
        n: &str,
        by: &BTreeMap<String, &Value>,
        readable: &BTreeSet<String>,
        color: &mut BTreeMap<String, u8>,
    ) -> bool {
        color.insert(n.to_string(), 1);
        if let Some(im) = by[n]["imports"].as_array() {
            for j in im {
                let j = j.as_str().unwrap();
                if !readable.contains(j) {
                    continue;
                }
                match color.get(j).copied().unwrap_or(0) {
                    1 => return true,
                    0 => {
                        if dfs(j, by, readable, color) {
                            return true;
                        }
                    }
                    _ => {}
                }
            }
        }
        color.insert(n.to_string(), 2);
        false
    }
    if readable.contains(root) && dfs(root, &by, &readable, &mut color) {
        causes.insert("LibCyclic".into());
    }
    causes
}

fn class_of(k: &EKind) -> String {
    match k {
        EKind::LibCyclic(_) => "LibCyclic".into(),
        EKind::LibNotFound(l) => format!("LibNotFound({})", l),
        EKind::Unbound(n) => format!("Unbound({})", n),
        other => {
            let s = format!("{:?}", other);
            s.split('(').next().unwrap_or("").to_string()
        }
    }
}

fn class_head(c: &str) -> String {
    c.split('(').next().unwrap_or("").to_string()
}

// ------------------------------------------------------------------ generation

const FAULT_BODIES: &[(&str, &str)] = &[
    ("(car 5)", "Type"),
    ("(/ 1 0)", "DivZero"),
    ("nosuch-variable", "Unbound(nosuch-variable)"),
    ("(vector-ref (vector 1) 3)", "Index"),
    ("(5 5)", "NotProc"),
    ("(cons 1)", "Arity"),
    ("(vector-set! #(1 2) 0 1)", "Immutable"),
];

fn gen_lib(rng: &mut Rng, short: &str, imports: Vec<String>, health: &str, allow_registered: bool) -> Value {
    let (fault, fault_kind) = *rng.pick(FAULT_BODIES);
    let others: Vec<&str> = SHORTS.iter().copied().chain(["zz"]).filter(|t| *t != short).collect();
    let layout_other = *rng.pick(&others);
    let delivery = if allow_registered && matches!(health, "healthy" | "faulting-body" | "missing" | "exports-undefined") && rng.chance(1, 3) {
        "registered"
    } else {
        "file"
    };
    json!({
        "short": short,
        "imports": imports,
        "health": health,
        "delivery": delivery,
        "start": rng.range(0, 50),
        "k": rng.range(1, 9),
        "renames": rng.chance(1, 2),
        "reexport": rng.chance(1, 2),
        "collide": rng.chance(1, 2),
        "macro": rng.chance(1, 2),
        "dep_style": rng.below(4),
        "fault": fault,
        "fault_kind": fault_kind,
        "cut": rng.below(10_000),
        "variant": rng.below(3),
        "layout": rng.below(8),
        "layout_other": layout_other,
        "decl_shape": rng.below(6),
        "twins": rng.chance(1, 3),
        "body_expr": rng.chance(1, 3),
    })
}

#[derive(Clone, Debug)]
struct Visible {
    lib: String,
    kind: String, // next, look, use-helper, use-plus, peek-secret, via:<j>
}

fn external_names(spec: &Value) -> Vec<(String, String)> {
    if spec["noexport"].as_bool().unwrap_or(false) {
        return vec![];
    }
    if spec["native"].as_bool().unwrap_or(false) {
        return vec![("nat-box".to_string(), "box".to_string())];
    }
    if spec["lookalike"].as_bool().unwrap_or(false) {
        let tag = spec["tag"].as_str().unwrap_or("uv");
        return vec![(format!("{}-next!", tag), "next".to_string()), (format!("{}-look", tag), "look".to_string())];
    }
    if spec["void"].as_bool().unwrap_or(false) {
        return vec![];
    }
    if spec["spo"].as_bool().unwrap_or(false) {
        return vec![("spoil!".to_string(), "spoil".to_string()), ("spo-plus".to_string(), "use-plus".to_string())];
    }
    if spec["ovr"].as_bool().unwrap_or(false) {
        return vec![
            ("own-abs".to_string(), "use-helper".to_string()),
            ("stage-ovr".to_string(), "const".to_string()),
            ("ovr-count".to_string(), "look".to_string()),
        ];
    }
    if spec["bare"].as_bool().unwrap_or(false) {
        return vec![
            ("bare-secret".to_string(), "peek-secret".to_string()),
            ("bare-get".to_string(), "look".to_string()),
            ("bare-set!".to_string(), "use-helper".to_string()),
            ("bare-car".to_string(), "peek-secret".to_string()),
        ];
    }
    let s = spec["short"].as_str().unwrap();
    let mut v = vec![
        (format!("next-{}!", s), "next".to_string()),
        (format!("look-{}", s), "look".to_string()),
        (format!("use-helper-{}", s), "use-helper".to_string()),
        (format!("use-plus-{}", s), "use-plus".to_string()),
        (format!("peek-secret-{}", s), "peek-secret".to_string()),
    ];
    if let Some(im) = spec["imports"].as_array() {
        for j in im {
            let j = j.as_str().unwrap();
            if j == "void" {
                continue;
            }
            v.push((format!("via-{}-{}", s, j), format!("via:{}", j)));
        }
    }
    v.push((format!("const-{}", s), "const".to_string()));
    v.push((format!("use-twice-{}", s), "use-helper".to_string()));

    if spec["body_expr"].as_bool().unwrap_or(false) {
        v.push((format!("snap-{}", s), "const".to_string()));
    }
    if spec["twins"].as_bool().unwrap_or(false) {
        v.push((format!("again-{}!", s), "next".to_string()));
        v.push((format!("get-helper-{}", s), "get-helper".to_string()));
    }
    if spec["load_effect"].as_bool().unwrap_or(false) {
        if let Some(im) = spec["imports"].as_array() {
            if im.iter().filter_map(|x| x.as_str()).any(|j| j != "zz" && j != s && j != "void") {
                v.push((format!("loaded-{}", s), "const".to_string()));
            }
        }
    }
    if spec["collide"].as_bool().unwrap_or(false) {
        v.push((format!("use-aux-{}", s), "use-helper".to_string()));
        v.push((format!("aux-{}", s), "look".to_string()));
        v.push((format!("lo-{}", s), "swapped".to_string()));
        v.push((format!("hi-{}", s), "swapped".to_string()));
    }
    if let Some(j) = reexport_target(spec) {
        v.push((format!("bump-{}-from-{}", j, s), format!("via:{}", j)));
    }
    v
}

pub fn generate_c13(seed: u64, quick: bool) -> Value {
    let mut rng = Rng::new(seed);
    let hash_seed = rng.next_u64() | 1;
    let n = rng.range(1, 4) as usize;
    let shorts: Vec<String> = SHORTS[..n].iter().map(|s| s.to_string()).collect();
    // acyclic: library i may import libraries with a higher index; diamonds favoured
    let mut libs = vec![];
    for i in 0..n {
        let mut imports = vec![];
        for j in (i + 1)..n {
            if rng.chance(3, 5) {
                imports.push(shorts[j].clone());
            }
        }
        libs.push(gen_lib(&mut rng, &shorts[i], imports, "healthy", true));
    }
    // at most ONE library of a world has a body with an effect on another library while it is
    // loaded (the order in which independent libraries are loaded is not fixed by anything)
    {
        let with_deps: Vec<usize> = (0..libs.len())
            .filter(|i| libs[*i]["imports"].as_array().map(|a| !a.is_empty()).unwrap_or(false))
            .collect();
        if !with_deps.is_empty() && rng.chance(1, 2) {
            let i = *rng.pick(&with_deps);
            libs[i]["load_effect"] = json!(true);
        }
    }
    if rng.chance(1, 2) {
        libs.push(json!({
            "short": "bare", "bare": true, "imports": [], "health": "healthy",
            "delivery": if rng.chance(1, 3) { "registered" } else { "file" },
            "start": rng.range(0, 50),
        }));
    }
    let with_noexport = rng.chance(1, 4);
    let with_native = rng.chance(1, 3);
    if with_native {
        libs.push(json!({
            "short": "nat", "native": true, "imports": [], "health": "healthy",
            "delivery": "registered", "start": rng.range(0, 50),
        }));
    }
    let n = libs.len();
    let mut ops: Vec<Value> = vec![];
    let mut visible: BTreeMap<String, Visible> = BTreeMap::new();
    let with_base = with_native || rng.chance(2, 3);
    if with_noexport {
        // imported first; it binds nothing
        libs.push(json!({
            "short": "noexp", "noexport": true, "imports": [], "health": "healthy",
            "delivery": if rng.chance(1, 3) { "registered" } else { "file" },
        }));
        ops.push(json!({"op": "eval", "k": "import-exposing-nothing", "t": "(import (lib noexp))"}));
    }
    if with_base {
        ops.push(json!({"op": "eval", "k": "import-base", "t": "(import (scheme base))"}));
    }
    if rng.chance(1, 6) {
        let mut pair = vec![
            json!({"short": "u v", "lookalike": true, "components": ["lib", "u", "v"], "file": "u/v.sld", "tag": "uv",
                   "imports": [], "health": "healthy", "delivery": if rng.chance(1, 3) { "registered" } else { "file" }, "start": rng.range(100, 150)}),
            json!({"short": "|u v|", "lookalike": true, "components": ["lib", "u v"], "file": "u v.sld", "tag": "u-v",
                   "imports": [], "health": "healthy", "delivery": if rng.chance(1, 3) { "registered" } else { "file" }, "start": rng.range(500, 550)}),
        ];
        if rng.chance(1, 2) {
            pair.reverse();
        }
        for spec in pair {
            for (name, kind) in external_names(&spec) {
                visible.insert(name, Visible { lib: spec["short"].as_str().unwrap().to_string(), kind });
            }
            ops.push(json!({"op": "eval", "k": "import-lookalike-name", "t": format!("(import {})", key_of(spec["short"].as_str().unwrap()))}));
            libs.push(spec);
        }
    }
    if rng.chance(1, 3) {
        let spec = json!({
            "short": "spo", "spo": true, "imports": [], "health": "healthy",
            "delivery": if rng.chance(1, 3) { "registered" } else { "file" },
        });
        for (name, kind) in external_names(&spec) {
            visible.insert(name, Visible { lib: "spo".into(), kind });
        }
        libs.push(spec);
        ops.push(json!({"op": "eval", "k": "import-overriding-library", "t": "(import (lib spo))"}));
    }
    if rng.chance(1, 4) {
        let spec = json!({
            "short": "ovr", "ovr": true, "imports": [], "health": "healthy",
            "delivery": if rng.chance(1, 3) { "registered" } else { "file" },
            "decl_shape": rng.below(3),
        });
        for (name, kind) in external_names(&spec) {
            visible.insert(name, Visible { lib: "ovr".into(), kind });
        }
        libs.push(spec);
        ops.push(json!({"op": "eval", "k": "import-overriding-library", "t": "(import (lib ovr))"}));
    }
    // phase 1: imports, possibly several declarations, with driver-level probes between
    let nimports = rng.range(1, n as i64 + 1) as usize;
    for _ in 0..nimports {
        let li = rng.upto(n);
        let spec = &libs[li];
        let s = spec["short"].as_str().unwrap().to_string();
        let names = external_names(spec);
        let form = rng.upto(5);
        let (set, bound): (String, Vec<(String, String)>) = match form {
            0 | 1 => (key_of(&s), names.iter().map(|(n, _)| (n.clone(), n.clone())).collect()),
            2 => {
                let p = format!("{}:", s);
                (
                    format!("(prefix {} {})", key_of(&s), p),
                    names.iter().map(|(n, _)| (format!("{}{}", p, n), n.clone())).collect(),
                )
            }
            3 => {
                let mut keep: Vec<String> = names.iter().filter(|_| rng.chance(2, 3)).map(|(n, _)| n.clone()).collect();
                if keep.is_empty() {
                    keep.push(names[0].0.clone());
                }
                (
                    format!("(only {} {})", key_of(&s), keep.join(" ")),
                    keep.iter().map(|n| (n.clone(), n.clone())).collect(),
                )
            }
            _ => {
                let (victim, _) = rng.pick(&names).clone();
                let newname = format!("renamed-{}", victim);
                (
                    format!("(rename {} ({} {}))", key_of(&s), victim, newname),
                    names
                        .iter()
                        .map(|(n, _)| (if *n == victim { newname.clone() } else { n.clone() }, n.clone()))
                        .collect(),
                )
            }
        };
        // (not in worlds where loading a library has an effect on another one: whether the
        // healthy library of a failing declaration gets loaded at all depends on the order in
        // which an implementation takes the import sets)
        let some_load_effect = libs.iter().any(|l| l["load_effect"].as_bool().unwrap_or(false));
        if rng.chance(1, 5) && !some_load_effect {
            // a declaration that fails after it has resolved a healthy library: nothing of it
            // is bound, and the libraries it touched stay the instances they are
            let other = key_of(libs[rng.upto(n)]["short"].as_str().unwrap());
            ops.push(json!({"op": "eval", "k": "import-failing", "t": format!("(import {} (lib zz))", other)}));
        }
        ops.push(json!({"op": "eval", "k": "import", "t": format!("(import {})", set)}));
        for (vis, orig) in bound {
            let kind = names.iter().find(|(n, _)| *n == orig).unwrap().1.clone();
            visible.insert(vis, Visible { lib: s.clone(), kind });
        }
        // the same program directory under another spelling: nothing changes
        if rng.chance(1, 6) {
            ops.push(json!({"op": "respell", "k": "program-directory-respelled", "spelling": rng.below(5)}));
        }
        // driver-level probes that do not end the import phase
        let probes = rng.range(0, 2);
        for _ in 0..probes {
            let vis: Vec<(&String, &Visible)> = visible.iter().collect();
            let (name, v) = *rng.pick(&vis);
            if v.kind == "box" || v.kind == "spoil" {
                // not probed at driver level
            } else if v.kind == "next" || v.kind == "look" || v.kind.starts_with("via:") {
                ops.push(json!({"op": "driver-call", "k": format!("driver-{}", class_head(&v.kind)), "name": name, "args": []}));
            } else if v.kind == "use-helper" || v.kind == "use-plus" {
                ops.push(json!({"op": "driver-call", "k": format!("driver-{}", v.kind), "name": name, "args": [rng.range(0, 20)]}));
            }
        }
    }
    // phase 2: program forms
    let steps = if quick { rng.range(5, 20) } else { rng.range(5, 35) };
    let vis_names: Vec<String> = visible.keys().cloned().collect();
    for _ in 0..steps {
        let choice = rng.upto(12);
        let t: (String, String) = match choice {
            0..=5 => {
                // call an exported procedure
                let name = rng.pick(&vis_names).clone();
                let v = &visible[&name];
                let k = format!("call-{}", class_head(&v.kind));
                if v.kind == "box" {
                    if rng.chance(1, 2) {
                        ("box-write".to_string(), format!("(vector-set! {} 0 {})", name, rng.range(100, 199)))
                    } else {
                        ("box-read".to_string(), format!("(vector-ref {} 0)", name))
                    }
                } else if v.kind == "get-helper" {
                    ("call-private-procedure-handed-out".to_string(), format!("(({}) {})", name, rng.range(0, 20)))
                } else if v.kind == "const" {
                    ("read-exported-constant".to_string(), name.clone())
                } else if v.kind == "use-helper" || v.kind == "use-plus" {
                    (k, format!("({} {})", name, rng.range(0, 20)))
                } else {
                    (k, format!("({})", name))
                }
            }
            6 => ("redefine-internal-state".into(), format!("(define n {})", rng.range(900, 999))),
            7 => {
                if rng.chance(1, 2) {
                    ("redefine-helper".into(), "(define (helper x) 0)".to_string())
                } else {
                    ("redefine-helper".into(), "(define helper 5)".to_string())
                }
            }
            8 => {
                if rng.chance(1, 2) {
                    ("define-secret".into(), format!("(define secret {})", rng.range(40, 49)))
                } else if rng.chance(1, 2) {
                    ("use-private-syntax-name".into(), format!("(twice {})", rng.range(1, 9)))
                } else {
                    ("redefine-private-syntax-name".into(), "(define (twice x) (- x 1))".to_string())
                }
            }
            9 => {
                // a builtin the libraries use
                if rng.chance(1, 2) {
                    ("redefine-builtin".into(), "(define (+ a b) 0)".to_string())
                } else {
                    ("redefine-builtin".into(), "(define + 7)".to_string())
                }
            }
            10 => {
                // redefine or assign an imported name in the importer
                let name = rng.pick(&vis_names).clone();
                if rng.chance(1, 2) {
                    ("redefine-import".into(), format!("(define {} {})", name, rng.range(0, 9)))
                } else {
                    ("redefine-import".into(), format!("(define ({} . args) 'mine)", name))
                }
            }
            _ => {
                // reference something the libraries keep to themselves
                let s = rng.pick(&shorts).clone();
                let cands = ["n".to_string(), "helper".to_string(), format!("peek-{}", s), "boom".to_string(), "weight".to_string(), "(weigh)".to_string(), "(list 1 2)".to_string()];
                ("reference-unexported".into(), rng.pick(&cands).clone())
            }
        };
        ops.push(json!({"op": "eval", "k": t.0, "t": t.1}));
    }
    json!({
        "seed": seed,
        "hash_seed": hash_seed,
        "mode": "C13",
        "libs": libs,
        "relative_program_dir": rng.chance(1, 3),
        "ops": ops,
    })
}

fn generate_c14(seed: u64, quick: bool) -> Value {
    let mut rng = Rng::new(seed);
    let hash_seed = rng.next_u64() | 1;
    if rng.chance(1, 25) {
        return generate_c14_chain(seed, hash_seed, &mut rng);
    }
    let n = rng.range(1, if quick { 3 } else { 4 }) as usize;
    let shorts: Vec<String> = SHORTS[..n].iter().map(|s| s.to_string()).collect();
    // swarm: which health kinds are enabled in this run
    let mut enabled: Vec<&str> = HEALTH_KINDS[1..].iter().copied().filter(|_| rng.chance(1, 2)).collect();
    let fault_free = rng.chance(1, 3);
    if enabled.is_empty() {
        enabled.push(HEALTH_KINDS[1 + rng.upto(HEALTH_KINDS.len() - 1)]);
    }
    let edge_p = rng.range(1, 4) as u64;
    let mut libs = vec![];
    let mut unhealthy = 0;
    for i in 0..n {
        let mut imports = vec![];
        for j in 0..n {
            // arbitrary directed graph: self-loops, 2- and 3-cycles, diamonds
            if rng.chance(edge_p, 6) && (i != j || rng.chance(1, 3)) {
                imports.push(shorts[j].clone());
            }
        }
        if rng.chance(1, 8) {
            imports.push("zz".to_string()); // a library that exists nowhere
        }
        let health = if !fault_free && unhealthy < 2 && rng.chance(1, 3) {
            unhealthy += 1;
            *rng.pick(&enabled)
        } else {
            "healthy"
        };
        libs.push(gen_lib(&mut rng, &shorts[i], imports, health, true));
    }
    // a library without exports, imported by some of the others and by the attempts themselves
    let mut shorts = shorts;
    if rng.chance(1, 4) {
        for l in libs.iter_mut() {
            if rng.chance(1, 2) {
                if let Some(a) = l["imports"].as_array_mut() {
                    a.push(json!("void"));
                }
            }
        }
        libs.push(json!({
            "short": "void", "void": true, "imports": [], "health": "healthy",
            "delivery": if rng.chance(1, 3) { "registered" } else { "file" },
        }));
        shorts.push("void".to_string());
    }
    let n = libs.len();
    // history: 1-4 import attempts, heal/break events in a third of the runs
    let with_events = rng.chance(1, 3);
    let attempts = rng.range(1, 4);
    let mut ops: Vec<Value> = vec![];
    let mut last_failed: Option<String> = None;
    let mut current = libs.clone();
    // the directory the program lives in may be set late (attempts made before any program
    // was run) and may move to another project between attempts
    let late_dir = rng.chance(1, 8);
    if late_dir {
        for _ in 0..rng.range(1, 2) {
            ops.push(json!({"op": "import", "lib": "nowhere"}));
        }
        ops.push(json!({"op": "move", "to": "prog"}));
    }
    let move_at = if rng.chance(1, 5) { rng.range(1, (attempts - 1).max(1)) } else { i64::MAX };
    for attempt_no in 0..attempts {
        if attempt_no == move_at {
            // the second project: same library names, health redrawn for file libraries
            let mut libs2 = vec![];
            for l in &current {
                let mut spec = l.clone();
                if spec["delivery"].as_str() != Some("registered") && rng.chance(2, 3) {
                    let healthy_now = spec["health"].as_str() == Some("healthy");
                    let new_health = if healthy_now {
                        if rng.chance(1, 2) || spec["void"].as_bool().unwrap_or(false) { "missing" } else { *rng.pick(&enabled) }
                    } else {
                        "healthy"
                    };
                    spec["health"] = json!(new_health);
                }
                libs2.push(spec);
            }
            current = libs2.clone();
            ops.push(json!({"op": "move", "to": "prog2", "libs": libs2}));
        }
        if with_events && rng.chance(1, 2) {
            // heal or break one library between attempts
            let i = rng.upto(n);
            let healthy_now = current[i]["health"].as_str() == Some("healthy");
            let new_health = if !healthy_now {
                "healthy"
            } else if current[i]["void"].as_bool().unwrap_or(false) {
                "missing"
            } else {
                *rng.pick(&enabled)
            };
            let mut spec = current[i].clone();
            spec["health"] = json!(new_health);
            if spec["delivery"].as_str() == Some("registered") && !matches!(new_health, "healthy" | "faulting-body" | "missing" | "exports-undefined") {
                spec["delivery"] = json!("file");
            }
            current[i] = spec.clone();
            ops.push(json!({"op": if healthy_now { "break" } else { "heal" }, "lib": spec}));
        }
        // bias: re-touch what just failed, or something sharing a dependency
        let target = match &last_failed {
            Some(l) if rng.chance(1, 2) => l.clone(),
            _ => {
                if rng.chance(1, 12) {
                    "zz".to_string()
                } else {
                    rng.pick(&shorts).clone()
                }
            }
        };
        let causes = analyse(&current, &target);
        if !causes.is_empty() {
            last_failed = Some(target.clone());
        }
        let style = if rng.chance(1, 4) { rng.range(1, 3) } else { 0 };
        ops.push(json!({"op": "import", "lib": target, "style": style}));
    }
    json!({
        "seed": seed,
        "hash_seed": hash_seed,
        "mode": "C14",
        "libs": libs,
        "relative_program_dir": rng.chance(1, 3),
        "late_dir": late_dir,
        "ops": ops,
    })
}

/// a long chain of libraries, each importing the next (and sometimes the one after it):
/// only the nesting of loads grows, never the number of paths a correct loader follows
fn generate_c14_chain(seed: u64, hash_seed: u64, rng: &mut Rng) -> Value {
    let n = if rng.chance(1, 2) { rng.range(50, 110) } else { rng.range(2, 50) } as usize;
    let shorts: Vec<String> = (0..n).map(|i| format!("c{}", i)).collect();
    let tail = rng.upto(6); // 0-2 the chain ends; 3 it closes on itself; 4 its end is missing; 5 its end faults
    let back_to = rng.upto(n);
    let mut libs = vec![];
    for i in 0..n {
        let mut imports = vec![];
        if i + 1 < n {
            imports.push(shorts[i + 1].clone());
            if i + 2 < n && rng.chance(1, 4) {
                imports.push(shorts[i + 2].clone()); // a shared dependency, not a cycle
            }
        } else if tail == 3 {
            imports.push(shorts[back_to].clone());
        }
        let health = match (i + 1 == n, tail) {
            (true, 4) => "missing",
            (true, 5) => "faulting-body",
            _ => "healthy",
        };
        libs.push(gen_lib(rng, &shorts[i], imports, health, false));
    }
    let mut ops = vec![];
    for _ in 0..rng.range(1, 3) {
        let target = if rng.chance(2, 3) { shorts[0].clone() } else { shorts[rng.upto(n)].clone() };
        ops.push(json!({"op": "import", "lib": target}));
    }
    json!({
        "seed": seed,
        "hash_seed": hash_seed,
        "mode": "C14",
        "chain": true,
        "libs": libs,
        "relative_program_dir": rng.chance(1, 3),
        "ops": ops,
    })
}

// ------------------------------------------------------------------ execution

struct Sandbox {
    root: PathBuf,
    prog: PathBuf,
    prog_as_given: PathBuf,
    /// None: no program has been run yet, libraries are looked up from the working directory
    directory_set: bool,
    relative: bool,
}

impl Sandbox {
    /// the program's directory becomes `<root>/<which>`
    fn move_to(&mut self, which: &str) {
        self.prog = self.root.join(which);
        let _ = std::fs::create_dir_all(self.prog.join("lib"));
        self.prog_as_given = if self.relative { PathBuf::from(format!("../{}", which)) } else { self.prog.clone() };
        self.directory_set = true;
    }
}

fn setup_sandbox(case: &Value, libs: &[Value]) -> Sandbox {
    let root = crate::sandbox::fresh_dir("libworld");
    let prog = root.join("prog");
    let cwd = root.join("cwd");
    std::fs::create_dir_all(prog.join("lib")).unwrap();
    std::fs::create_dir_all(cwd.join("lib")).unwrap();
    write_world(&prog, libs);
    // decoys in the working directory: every possible library name
    for s in SHORTS.iter().chain(["zz", "bare"].iter()) {
        std::fs::write(cwd.join("lib").join(format!("{}.sld", s)), decoy_source(s)).unwrap();
    }
    std::env::set_current_dir(&cwd).expect("chdir to decoy directory");
    let prog_as_given = if case["relative_program_dir"].as_bool().unwrap_or(false) {
        PathBuf::from("../prog")
    } else {
        prog.clone()
    };
    Sandbox {
        root,
        prog,
        prog_as_given,
        directory_set: !case["late_dir"].as_bool().unwrap_or(false),
        relative: case["relative_program_dir"].as_bool().unwrap_or(false),
    }
}

fn teardown_sandbox(sb: &Sandbox) {
    let _ = std::env::set_current_dir("/");
    crate::sandbox::remove_dir(&sb.root);
}

fn new_interpreter(sb: &Sandbox, libs: &[Value]) -> Result<Interpreter<'static, f32>, String> {
    let mut it = match guarded(Interpreter::<f32>::default) {
        Ok(it) => it,
        Err(p) => return Err(format!("panic/{}", p.signature())),
    };
    if sb.directory_set {
        it.program_directory = Some(sb.prog_as_given.clone());
    }
    register_libs(&mut it, libs)?;
    Ok(it)
}

fn eval_outcome(it: &mut Interpreter<'static, f32>, text: &str) -> Outcome {
    match guarded(|| it.eval(text.chars())) {
        Ok(Ok(v)) => Outcome::Value(v.as_ref().map(obs_of_value)),
        Ok(Err(e)) => Outcome::Error(kind_of_error(&e)),
        Err(p) => Outcome::Panic(p),
    }
}

fn execute_c13(case: Value) -> RunResult {
    let mut res = RunResult::default();
    let libs: Vec<Value> = case["libs"].as_array().cloned().unwrap_or_default();
    let ops: Vec<Value> = case["ops"].as_array().cloned().unwrap_or_default();
    res.log.push(format!(
        "seed={} hash_seed={} mode=C13 libs={}",
        case["seed"],
        case["hash_seed"],
        libs.iter()
            .map(|l| format!("{}->{}[{}]", l["short"].as_str().unwrap_or(""), l["imports"], l["delivery"].as_str().unwrap_or("")))
            .collect::<Vec<_>>()
            .join(" ")
    ));
    // the world must be healthy and acyclic here
    for l in &libs {
        if l["health"].as_str() != Some("healthy") {
            res.invalid = Some("C13 worlds are healthy".into());
            return res;
        }
        if !analyse(&libs, l["short"].as_str().unwrap()).is_empty() {
            res.invalid = Some("C13 worlds are acyclic and complete".into());
            return res;
        }
    }
    let sb = setup_sandbox(&case, &libs);
    let mut m = Machine::new_empty();
    m.world = model_world(&libs);
    let mut it = match new_interpreter(&sb, &libs) {
        Ok(it) => it,
        Err(e) => {
            teardown_sandbox(&sb);
            res.violation = Some(Violation { signature: format!("C13/setup/{}", e), detail: json!({"error": e}) });
            return res;
        }
    };
    ruschm::verif_hooks::set_budget(3_000_000, 20_000);
    ruschm::verif_hooks::set_loader_depth_limit(64);
    let steps0 = ruschm::verif_hooks::steps();
    let mut kinds = String::new();
    let mut shared_instance_probe = 0u32;
    let mut touched: BTreeSet<String> = BTreeSet::new();
    for (step, op) in ops.iter().enumerate() {
        let kind = op["k"].as_str().unwrap_or("?").to_string();
        kinds.push_str(&kind);
        kinds.push(',');
        let (text, expected, got) = match op["op"].as_str() {
            Some("eval") => {
                let text = op["t"].as_str().unwrap_or("").to_string();
                let sx = match parse_one(&text) {
                    Ok(s) => s,
                    Err(e) => {
                        res.invalid = Some(e);
                        break;
                    }
                };
                if kind == "import-overriding-library" || kind == "import-exposing-nothing" {
                    // the implementation may refuse such a library; the model follows what it did
                    let got = eval_outcome(&mut it, &text);
                    if matches!(got, Outcome::Value(_)) {
                        let _ = m.eval_top(&sx);
                    }
                    res.log.push(format!("{:>3} [{}] {} => {} | (not judged)", step, kind, text, got.short()));
                    if let Outcome::Panic(p) = &got {
                        res.violation = Some(Violation {
                            signature: format!("C13/panic/{}", p.signature()),
                            detail: json!({"step": step, "op": text, "panic": p.message}),
                        });
                        break;
                    }
                    res.count("probe.library_redefines_imported_name");
                    continue;
                }
                if kind == "call-spoil" {
                    // assigning an imported name is an error by the report: the implementation may
                    // refuse it (then nothing happened) or apply it to that library's own view.
                    // The model follows whichever it did; what matters is everybody else, later.
                    let got = eval_outcome(&mut it, &text);
                    if matches!(got, Outcome::Value(_)) {
                        let _ = m.eval_top(&sx);
                    }
                    res.log.push(format!("{:>3} [{}] {} => {} | (not judged)", step, kind, text, got.short()));
                    if let Outcome::Panic(p) = &got {
                        res.violation = Some(Violation {
                            signature: format!("C13/panic/{}", p.signature()),
                            detail: json!({"step": step, "op": text, "panic": p.message}),
                        });
                        break;
                    }
                    res.count("probe.library_assigns_imported_name");
                    continue;
                }
                let er = m.eval_top(&sx);
                if let Err(RErr::Budget) | Err(RErr::Unsupported(_)) = &er {
                    res.invalid = Some(format!("reference model cannot judge step {}: {:?}", step, er.as_ref().err()));
                    break;
                }
                let expected = model_outcome(&m, &er);
                let got = eval_outcome(&mut it, &text);
                (text, expected, got)
            }
            Some("respell") => {
                let abs = sb.prog.to_string_lossy().to_string();
                let p = match op["spelling"].as_u64().unwrap_or(0) {
                    0 => abs.clone(),
                    1 => "../prog".to_string(),
                    2 => "../prog/.".to_string(),
                    3 => format!("{}/../prog", abs),
                    _ => "../cwd/../prog".to_string(),
                };
                it.program_directory = Some(PathBuf::from(&p));
                res.log.push(format!("{:>3} [{}] program directory now spelled {}", step, kind, p.replace(&abs, "<prog>")));
                res.count("event.program_directory_respelled");
                continue;
            }
            Some("driver-call") => {
                let name = op["name"].as_str().unwrap_or("").to_string();
                let args: Vec<i64> = op["args"].as_array().map(|a| a.iter().filter_map(|x| x.as_i64()).collect()).unwrap_or_default();
                let text = format!("<driver> apply {} {:?}", name, args);
                let er = match m.root.lookup(&name) {
                    Some(f) => m.apply(&f, args.iter().map(|i| RV::Int(*i)).collect()),
                    None => Err(RErr::Unbound(name.clone())),
                };
                let expected = model_outcome(&m, &er);
                let proc = it.env.get(&name).map(|v| (*v).clone());
                let got = match proc {
                    None => Outcome::Error(EKind::Unbound(name.clone())),
                    Some(ruschm::values::Value::Procedure(p)) => {
                        let argv: ruschm::values::ArgVec<f32> = args
                            .iter()
                            .map(|i| ruschm::values::Value::Number(ruschm::values::Number::Integer(*i as i32)))
                            .collect();
                        let env = it.env.clone();
                        match guarded(|| Interpreter::apply_procedure(&p, argv, &env)) {
                            Ok(Ok(v)) => Outcome::Value(Some(obs_of_value(&v))),
                            Ok(Err(e)) => Outcome::Error(kind_of_error(&e)),
                            Err(p) => Outcome::Panic(p),
                        }
                    }
                    Some(_) => Outcome::Error(EKind::NotProc),
                };
                (text, expected, got)
            }
            _ => {
                res.invalid = Some(format!("unknown op {}", op));
                break;
            }
        };
        res.log.push(format!("{:>3} [{}] {} => {} | model {}", step, kind, text, got.short(), expected.short()));
        if let Outcome::Panic(p) = &got {
            res.violation = Some(Violation {
                signature: format!("C13/panic/{}", p.signature()),
                detail: json!({"step": step, "op": text, "panic": p.message, "at": format!("{}:{}", p.file, p.line)}),
            });
            break;
        }
        if let Outcome::Value(Some(o)) = &got {
            if o.short().contains("decoy") {
                res.violation = Some(Violation {
                    signature: "C13/decoy-library-loaded".into(),
                    detail: json!({"step": step, "op": text, "observed": got.short()}),
                });
                break;
            }
        }
        if !outcome_matches(&expected, &got) {
            // classification: what kind of operation observed the difference
            let class = if kind.starts_with("call-next") || kind.starts_with("call-look") || kind.starts_with("call-via")
                || kind.starts_with("driver-next") || kind.starts_with("driver-look") || kind.starts_with("driver-via")
            {
                "library-state"
            } else if kind == "import" || kind == "import-base" {
                "import"
            } else if kind.contains("peek-secret") {
                "library-sees-importer"
            } else if kind == "reference-unexported" || kind.contains("private-syntax") {
                "importer-sees-unexported"
            } else {
                "exported-procedure-result"
            };
            res.violation = Some(Violation {
                signature: format!("C13/{}-differs", class),
                detail: json!({"step": step, "op": text, "expected": expected.short(), "observed": got.short()}),
            });
            break;
        }
        // cross-invariant: every model global is bound alike in the interpreter
        let mut bad = None;
        for (name, rv) in m.root.vars.borrow().iter() {
            let exp = obs_of_rv(&m, rv);
            match it.env.get(name) {
                None => {
                    bad = Some((name.clone(), exp.short(), "<unbound>".to_string()));
                    break;
                }
                Some(v) => {
                    let g = obs_of_value(&v);
                    if !exp.accepts(&g) {
                        bad = Some((name.clone(), exp.short(), g.short()));
                        break;
                    }
                }
            }
        }
        if let Some((name, exp, got)) = bad {
            res.violation = Some(Violation {
                signature: "C13/bindings-differ".into(),
                detail: json!({"step": step, "op": text, "name": name, "expected": exp, "observed": got}),
            });
            break;
        }
        // probes
        if kind.contains("via") {
            shared_instance_probe += 1;
            res.count("probe.counter_reached_through_another_library");
        }
        if kind.contains("next") || kind.contains("look") {
            touched.insert(kind.clone());
        }
        if kind.starts_with("redefine") {
            res.count("probe.importer_redefinition");
        }
        if kind.starts_with("driver-") {
            res.count("probe.driver_probe_during_import_phase");
        }
        res.state_hashes.push(fnv64(format!("{}{}", step, expected.short()).as_bytes()));
    }
    // exact export sets: after the history, names the model does not know must not have
    // appeared from the user libraries (checked through the suffix convention)
    if res.violation.is_none() && res.invalid.is_none() {
        let model_names: BTreeSet<String> = m.root.vars.borrow().keys().cloned().collect();
        let mut extra = vec![];
        {
            let mut defs = it.env.iter_local_definitions();
            for (k, _) in &mut *defs {
                if !model_names.contains(k) {
                    let userish = k == "n" || k == "helper" || k == "boom" || k == "secret"
                        || SHORTS.iter().any(|s| k.ends_with(&format!("-{}", s)) || k.ends_with(&format!("-{}!", s)));
                    if userish {
                        extra.push(k.clone());
                    }
                }
            }
        }
        if !extra.is_empty() {
            extra.sort();
            res.violation = Some(Violation {
                signature: "C13/unexported-binding-visible".into(),
                detail: json!({"names": extra}),
            });
        }
    }
    res.steps = ruschm::verif_hooks::steps() - steps0 + ops.len() as u64;
    teardown_sandbox(&sb);
    res.count(&format!("libs.{}", libs.len()));
    let diamond = libs.iter().filter(|l| {
        let s = l["short"].as_str().unwrap();
        libs.iter().filter(|o| o["imports"].as_array().map(|a| a.iter().any(|x| x.as_str() == Some(s))).unwrap_or(false)).count() >= 2
    }).count();
    if diamond > 0 {
        res.count("probe.shared_dependency_in_world");
    }
    res.sched_hash = fnv64(format!("{}|{}", kinds, libs.iter().map(|l| l["imports"].to_string()).collect::<String>()).as_bytes());
    res.nontrivial = shared_instance_probe > 0 || (libs.len() >= 2 && touched.len() >= 2);
    res
}

/// the import set an attempt uses: the bare name, or an operator that asks for nothing of the
/// library's (loading it for its effects), or one that keeps everything
fn styled_set(lib: &str, style: u64) -> String {
    match style {
        1 => format!("(only {})", key_of(lib)),
        2 => format!("(prefix {} q:)", key_of(lib)),
        3 => format!("(except {})", key_of(lib)),
        _ => key_of(lib),
    }
}

fn import_class(it: &mut Interpreter<'static, f32>, lib: &str, style: u64) -> Result<String, crate::hashseed::PanicRecord> {
    match eval_outcome(it, &format!("(import {})", styled_set(lib, style))) {
        Outcome::Value(_) => Ok("Ok".to_string()),
        Outcome::Error(k) => Ok(class_of(&k)),
        Outcome::Panic(p) => Err(p),
    }
}

fn execute_c14(case: Value) -> RunResult {
    let mut res = RunResult::default();
    let libs0: Vec<Value> = case["libs"].as_array().cloned().unwrap_or_default();
    let ops: Vec<Value> = case["ops"].as_array().cloned().unwrap_or_default();
    res.log.push(format!(
        "seed={} hash_seed={} mode=C14 libs={}",
        case["seed"],
        case["hash_seed"],
        libs0
            .iter()
            .map(|l| format!(
                "{}->{}[{},{}]",
                l["short"].as_str().unwrap_or(""),
                l["imports"],
                l["health"].as_str().unwrap_or(""),
                l["delivery"].as_str().unwrap_or("")
            ))
            .collect::<Vec<_>>()
            .join(" ")
    ));
    let mut sb = setup_sandbox(&case, &libs0);
    let mut current = libs0.clone();
    // every version each library has had since the interpreter was created
    let mut versions: Vec<Vec<Value>> = libs0.iter().map(|l| vec![l.clone()]).collect();
    // (library, version) pairs a loader may legitimately have kept: the library was reached
    // by an earlier attempt while that version was readable
    let mut kept: BTreeSet<(usize, usize)> = BTreeSet::new();
    let chain = case["chain"].as_bool().unwrap_or(false);
    let mut it = match new_interpreter(&sb, &current) {
        Ok(it) => it,
        Err(e) => {
            teardown_sandbox(&sb);
            res.invalid = Some(format!("setup: {}", e));
            return res;
        }
    };
    ruschm::verif_hooks::set_budget(3_000_000, 20_000);
    // far above anything a correct loader needs for this world (every wrapper of an import set
    // counts as a level), far below what hurts
    let nesting_limit = if chain { 6 * libs0.len() as u32 + 16 } else { 64 };
    ruschm::verif_hooks::set_loader_depth_limit(nesting_limit);
    let mut kinds = String::new();
    let mut any_event = false;
    let mut failed_before: BTreeSet<String> = BTreeSet::new();
    let mut attempts = 0;
    for (step, op) in ops.iter().enumerate() {
        match op["op"].as_str() {
            Some("heal") | Some("break") => {
                let spec = op["lib"].clone();
                let s = spec["short"].as_str().unwrap_or("").to_string();
                let Some(i) = current.iter().position(|l| l["short"].as_str() == Some(&s)) else {
                    res.invalid = Some("event on unknown library".into());
                    break;
                };
                current[i] = spec.clone();
                versions[i].push(spec.clone());
                write_lib(&sb.prog, &spec);
                if spec["delivery"].as_str() == Some("registered") {
                    // a host that re-registers a source replaces the definition
                    if spec["health"].as_str() != Some("missing") {
                        let name = library_name_of(&["lib", &s]);
                        if let Ok(f) = LibraryFactory::from_char_stream(&name, lib_source(&spec).chars()) {
                            it.register_library_factory(f);
                        }
                    }
                }
                any_event = true;
                kinds.push_str(op["op"].as_str().unwrap());
                kinds.push(',');
                res.log.push(format!("{:>3} [{}] {} becomes {}", step, op["op"].as_str().unwrap(), s, spec["health"].as_str().unwrap_or("")));
                res.count(&format!("event.{}", op["op"].as_str().unwrap()));
            }
            Some("move") => {
                let to = op["to"].as_str().unwrap_or("prog").to_string();
                sb.move_to(&to);
                if let Some(l2) = op["libs"].as_array() {
                    if l2.len() != current.len() {
                        res.invalid = Some("move with a different set of libraries".into());
                        break;
                    }
                    for (i, spec) in l2.iter().enumerate() {
                        if *spec != current[i] {
                            versions[i].push(spec.clone());
                            any_event = true;
                        }
                        current[i] = spec.clone();
                    }
                    write_world(&sb.prog, &current);
                }
                it.program_directory = Some(sb.prog_as_given.clone());
                kinds.push_str(&format!("move:{},", to));
                res.log.push(format!(
                    "{:>3} [move] the program directory becomes {} ({})",
                    step,
                    to,
                    current.iter().map(|l| format!("{}:{}", l["short"].as_str().unwrap_or(""), l["health"].as_str().unwrap_or(""))).collect::<Vec<_>>().join(" ")
                ));
                res.count(&format!("event.move-to-{}", to));
            }
            Some("import") => {
                attempts += 1;
                let lib = op["lib"].as_str().unwrap_or("").to_string();
                let causes = analyse(&current, &lib);
                // accepted classes: for the world as it is; after events also for any
                // mixture of versions a loader may legitimately have kept
                let mut accepted: BTreeSet<String> = if causes.is_empty() { ["Ok".to_string()].into() } else { causes.clone() };
                // which versions of each library may be in effect for this attempt
                let allowed: Vec<Vec<usize>> = versions
                    .iter()
                    .enumerate()
                    .map(|(i, vs)| {
                        let registered_once = vs.iter().any(|v| v["delivery"].as_str() == Some("registered"));
                        (0..vs.len())
                            .filter(|v| *v + 1 == vs.len() || registered_once || kept.contains(&(i, *v)))
                            .collect()
                    })
                    .collect();
                if any_event {
                    let mut mixes: Vec<Vec<Value>> = vec![vec![]];
                    for (i, vs) in allowed.iter().enumerate() {
                        let mut next = vec![];
                        for m in &mixes {
                            for v in vs {
                                let mut mm = m.clone();
                                mm.push(versions[i][*v].clone());
                                next.push(mm);
                            }
                        }
                        mixes = next;
                    }
                    if mixes.len() > 4096 {
                        res.invalid = Some("too many version mixtures".into());
                        break;
                    }
                    for mix in &mixes {
                        let c = analyse(mix, &lib);
                        if c.is_empty() {
                            accepted.insert("Ok".into());
                        } else {
                            accepted.extend(c);
                        }
                    }
                }
                // what this attempt may leave behind: everything it can reach through
                // readable versions keeps the version it was read in
                {
                    let index: BTreeMap<String, usize> = current
                        .iter()
                        .enumerate()
                        .map(|(i, l)| (l["short"].as_str().unwrap_or("").to_string(), i))
                        .collect();
                    let mut seen: BTreeSet<usize> = BTreeSet::new();
                    let mut stack: Vec<usize> = index.get(&lib).copied().into_iter().collect();
                    while let Some(i) = stack.pop() {
                        if !seen.insert(i) {
                            continue;
                        }
                        for v in &allowed[i] {
                            let spec = &versions[i][*v];
                            if matches!(spec["health"].as_str(), Some("healthy") | Some("faulting-body") | Some("exports-undefined")) {
                                kept.insert((i, *v));
                                if let Some(im) = spec["imports"].as_array() {
                                    for j in im {
                                        if let Some(k) = index.get(j.as_str().unwrap_or("")) {
                                            stack.push(*k);
                                        }
                                    }
                                }
                            }
                        }
                    }
                }
                let style = op["style"].as_u64().unwrap_or(0);
                let observed = match import_class(&mut it, &lib, style) {
                    Ok(c) => c,
                    Err(p) => {
                        res.log.push(format!("{:>3} [import] {} => PANIC {}", step, lib, p.signature()));
                        res.violation = Some(Violation {
                            signature: format!("C14/panic/{}", p.signature()),
                            detail: json!({"step": step, "import": key_of(&lib), "panic": p.message, "at": format!("{}:{}", p.file, p.line), "accepted": accepted}),
                        });
                        break;
                    }
                };
                // the same import on a fresh interpreter over the same world state
                let fresh = match new_interpreter(&sb, &current) {
                    Ok(mut f) => match import_class(&mut f, &lib, style) {
                        Ok(c) => c,
                        Err(p) => {
                            res.log.push(format!("{:>3} [import] {} => {} | fresh interpreter PANIC {}", step, lib, observed, p.signature()));
                            res.violation = Some(Violation {
                                signature: format!("C14/panic/{}", p.signature()),
                                detail: json!({"step": step, "import": key_of(&lib), "on": "fresh interpreter", "panic": p.message, "at": format!("{}:{}", p.file, p.line), "accepted": accepted}),
                            });
                            break;
                        }
                    },
                    Err(e) => format!("SETUP {}", e),
                };
                res.log.push(format!(
                    "{:>3} [import] {} => {} | fresh interpreter {} | accepted {:?}",
                    step, lib, observed, fresh, accepted
                ));
                res.aux.push(format!("{}{}", if causes.len() >= 2 { "*" } else { "" }, observed));
                kinds.push_str(&format!("import:{},", if causes.is_empty() { "ok".to_string() } else { causes.iter().map(|c| class_head(c)).collect::<Vec<_>>().join("+") }));
                for c in &causes {
                    res.count(&format!("fault_reached.{}", class_head(c)));
                }
                if causes.is_empty() {
                    res.count("import_expected_ok");
                }
                if failed_before.contains(&lib) {
                    res.count("probe.import_retried_after_failure");
                }
                if !failed_before.is_empty() && !failed_before.contains(&lib) {
                    res.count("probe.other_import_after_a_failure");
                }
                if any_event && causes.is_empty() && observed == "Ok" && failed_before.contains(&lib) {
                    res.count("probe.recovered_after_heal");
                }
                if observed == "Budget" || fresh == "Budget" {
                    res.violation = Some(Violation {
                        signature: "C14/loading-does-not-terminate".into(),
                        detail: json!({"step": step, "import": key_of(&lib), "accepted": accepted, "observed": observed, "fresh_interpreter": fresh, "note": format!("library loads nested more than {} deep in a world of {} libraries", nesting_limit, libs0.len())}),
                    });
                    break;
                }
                if !accepted.contains(&observed) {
                    let hist = if accepted.contains(&fresh) { "history-dependent" } else { "fresh" };
                    res.violation = Some(Violation {
                        signature: format!("C14/{}/unexpected-{}", hist, class_head(&observed)),
                        detail: json!({"step": step, "import": key_of(&lib), "accepted": accepted, "observed": observed, "fresh_interpreter": fresh, "earlier_failed": failed_before}),
                    });
                    break;
                }
                if !accepted.contains(&fresh) {
                    res.violation = Some(Violation {
                        signature: format!("C14/fresh/unexpected-{}", class_head(&fresh)),
                        detail: json!({"step": step, "import": key_of(&lib), "accepted": accepted, "fresh_interpreter": fresh}),
                    });
                    break;
                }
                // success must have bound the library's exports, from the right directory
                if observed == "Ok" && !any_event && style == 0 {
                    if let Some(spec) = current.iter().find(|l| l["short"].as_str() == Some(&lib)) {
                        for (name, kind) in external_names(spec) {
                            let ok = match it.env.get(&name).map(|v| obs_of_value(&v)) {
                                Some(Obs::Proc) => kind != "const",
                                Some(Obs::Int(_)) => kind == "const",
                                _ => false,
                            };
                            if !ok {
                                res.violation = Some(Violation {
                                    signature: "C14/successful-import-binds-nothing".into(),
                                    detail: json!({"step": step, "import": key_of(&lib), "missing": name}),
                                });
                                break;
                            }
                        }
                        if res.violation.is_some() {
                            break;
                        }
                        // the real library answers a number, the decoy a symbol
                        let probe = format!("look-{}", lib);
                        if let Some(ruschm::values::Value::Procedure(p)) = it.env.get(&probe).map(|v| (*v).clone()) {
                            let env = it.env.clone();
                            if let Ok(Ok(v)) = guarded(|| Interpreter::apply_procedure(&p, Default::default(), &env)) {
                                if obs_of_value(&v).short().contains("decoy") {
                                    res.violation = Some(Violation {
                                        signature: "C14/decoy-library-loaded".into(),
                                        detail: json!({"step": step, "import": key_of(&lib)}),
                                    });
                                    break;
                                }
                            }
                        }
                    }
                }
                if observed != "Ok" {
                    failed_before.insert(lib.clone());
                }
                res.state_hashes.push(fnv64(format!("{}{}{}", step, lib, observed).as_bytes()));
            }
            _ => {
                res.invalid = Some(format!("unknown op {}", op));
                break;
            }
        }
    }
    teardown_sandbox(&sb);
    res.steps = attempts + ops.len() as u64;
    for l in &libs0 {
        res.count(&format!("health_configured.{}", l["health"].as_str().unwrap_or("")));
    }
    res.sched_hash = fnv64(
        format!(
            "{}|{}",
            kinds,
            libs0.iter().map(|l| format!("{}{}{}", l["imports"], l["health"], l["delivery"])).collect::<String>()
        )
        .as_bytes(),
    );
    res.nontrivial = res.counters.keys().any(|k| k.starts_with("fault_reached."));
    res
}

impl Engine for EngineB {
    fn property(&self) -> &'static str {
        if self.faults { "C14" } else { "C13" }
    }
    fn engine_name(&self) -> &'static str {
        "library-world"
    }
    fn level(&self) -> &'static str {
        if self.faults { "fault_enumeration" } else { "exploration" }
    }
    fn runs(&self, quick: bool) -> u64 {
        match (self.faults, quick) {
            (false, true) => 30_000,
            (false, false) => 1_000_000,
            (true, true) => 30_000,
            (true, false) => 1_500_000,
        }
    }
    fn generate(&self, seed: u64, quick: bool) -> Value {
        if self.faults { generate_c14(seed, quick) } else { generate_c13(seed, quick) }
    }
    fn execute(&self, case: &Value) -> RunResult {
        let hash_seed = case["hash_seed"].as_u64().unwrap_or(1);
        let c = case.clone();
        let faults = self.faults;
        match on_fresh_thread(hash_seed, move || if faults { execute_c14(c) } else { execute_c13(c) }) {
            ThreadOutcome::Done(mut r) => {
                // "depends only on the library graph": where several causes are reachable, which
                // one is reported is left open, but it must not change from run to run
                if faults && r.violation.is_none() && r.invalid.is_none() && r.aux.iter().any(|a| a.starts_with('*')) {
                    let c2 = case.clone();
                    let seed2 = crate::rng::splitmix64(hash_seed) | 1;
                    if let ThreadOutcome::Done(r2) = on_fresh_thread(seed2, move || execute_c14(c2)) {
                        r.count("probe.rerun_under_second_hash_seed");
                        if r2.aux != r.aux && r2.violation.is_none() {
                            r.violation = Some(Violation {
                                signature: "C14/outcome-depends-on-hash-order".into(),
                                detail: json!({"hash_seed_a": hash_seed, "observed_a": r.aux, "hash_seed_b": seed2, "observed_b": r2.aux}),
                            });
                        }
                    }
                }
                r
            }
            ThreadOutcome::Panicked(p) => {
                let _ = std::env::set_current_dir("/");
                let mut r = RunResult::default();
                r.invalid = Some(format!("harness panic: {} at {}:{}", p.message, p.file, p.line));
                r
            }
        }
    }
    fn may_kill_process(&self) -> bool {
        self.faults
    }
    fn on_process_death(&self, _case: &Value, status: &str) -> RunResult {
        let mut r = RunResult::default();
        r.violation = Some(Violation {
            signature: format!("{}/loading-does-not-terminate/process-death", self.property()),
            detail: json!({"status": status, "note": "the worker process died while loading (stack overflow from unbounded loader recursion, or abort)"}),
        });
        r
    }
    fn shrink(&self, case: &Value) -> Vec<Value> {
        let mut out = shrink_list(case, "ops");
        let libs = case["libs"].as_array().cloned().unwrap_or_default();
        // drop a library (and edges to it)
        for i in 0..libs.len() {
            let s = libs[i]["short"].as_str().unwrap_or("").to_string();
            let mut l2: Vec<Value> = vec![];
            for (j, l) in libs.iter().enumerate() {
                if i == j {
                    continue;
                }
                let mut l = l.clone();
                if let Some(im) = l["imports"].as_array() {
                    l["imports"] = json!(im.iter().filter(|x| x.as_str() != Some(&s)).cloned().collect::<Vec<_>>());
                }
                l2.push(l);
            }
            let ops_ok = case["ops"].as_array().map(|ops| {
                ops.iter().all(|o| {
                    o["lib"].as_str() != Some(&s)
                        && o["lib"]["short"].as_str() != Some(&s)
                        && !o["t"].as_str().unwrap_or("").contains(&format!("-{}", s))
                        && !o["name"].as_str().unwrap_or("").contains(&format!("-{}", s))
                        && !o["t"].as_str().unwrap_or("").contains(&key_of(&s))
                })
            }).unwrap_or(true);
            if ops_ok || self.faults {
                out.push(with_field(case, "libs", json!(l2)));
            }
        }
        // drop single edges; make unhealthy libraries healthy; simpler delivery
        for i in 0..libs.len() {
            if let Some(im) = libs[i]["imports"].as_array() {
                for e in 0..im.len() {
                    let mut l2 = libs.clone();
                    l2[i]["imports"] = json!(without_index(im, e));
                    // exported via-procedures vanish with the edge: only valid if unused
                    let via = format!("via-{}-{}", libs[i]["short"].as_str().unwrap_or(""), im[e].as_str().unwrap_or(""));
                    if !case["ops"].to_string().contains(&via) {
                        out.push(with_field(case, "libs", json!(l2)));
                    }
                }
            }
            if self.faults && libs[i]["health"].as_str() != Some("healthy") {
                let mut l2 = libs.clone();
                l2[i]["health"] = json!("healthy");
                out.push(with_field(case, "libs", json!(l2)));
                for simpler in ["missing", "empty"] {
                    if libs[i]["health"].as_str() != Some(simpler) {
                        let mut l3 = libs.clone();
                        l3[i]["health"] = json!(simpler);
                        out.push(with_field(case, "libs", json!(l3)));
                    }
                }
            }
            if libs[i]["delivery"].as_str() == Some("registered") {
                let mut l2 = libs.clone();
                l2[i]["delivery"] = json!("file");
                out.push(with_field(case, "libs", json!(l2)));
            }
            if libs[i]["renames"].as_bool() == Some(true) && self.faults {
                let mut l2 = libs.clone();
                l2[i]["renames"] = json!(false);
                out.push(with_field(case, "libs", json!(l2)));
            }
        }
        if case["relative_program_dir"].as_bool() == Some(true) {
            out.push(with_field(case, "relative_program_dir", json!(false)));
        }
        if case["hash_seed"].as_u64() != Some(1) {
            out.push(with_field(case, "hash_seed", json!(1)));
        }
        out
    }
    fn rule(&self) -> String {
        if self.faults {
            "seeded worlds of 1-4 user libraries with arbitrary directed import graphs (self-loops, 2/3-cycles, diamonds, edges to a library that exists nowhere), per-library health in {healthy, missing, wrong name inside file, faulting body (7 run-time error kinds), broken syntax (3 variants), invalid UTF-8 at byte k, directory in place of the file, empty, truncated at byte k, dangling symlink}, file or registered delivery, decoy libraries in the working directory, program directory given absolute or relative; library names with punctuation; library files may hold other libraries, plain forms or drafts of other world libraries next to the wanted one; declarations in several pieces and orders; histories of 1-4 import attempts on one interpreter with heal/break events between attempts in a third of the runs, the program directory set late (one run in 8) or moved to a second project with redrawn health (one in 5); one run in 25 is a chain world of 2-110 libraries each importing the next. Oracle: reachability/cycle analysis of the graph as it is at that attempt (several causes: any is accepted; after events: old versions only of libraries an earlier attempt could have read, or registered ones) and the same import on a fresh real interpreter. distinct = hash of (event/attempt sequence with expected classes, graph, health, delivery); non-trivial = at least one fault or cycle was reachable from an attempted import".into()
        } else {
            "seeded worlds of 1-4 healthy user libraries forming a DAG (shared dependencies favoured), each with private state `n`, a private `helper`, exported procedures (with and without export rename) incl. one calling a dependency and one referencing a name only the importer defines; file or registered delivery; decoy libraries with marker values in the working directory; further: re-exports, exported constants, export renames onto bound names, a private macro or procedure of one common name, dependencies imported through prefix/only/rename, declarations in several pieces and orders, other libraries or forms in the same file, names with punctuation, and the special libraries bare (no import declaration), nat (native, fresh box per factory call), noexp (no export declaration) and ovr (defines and exports a name it imported; its import is not judged), libraries that assign an imported name (not judged either), failing import declarations. Histories: import declarations (direct, prefix, only, rename) interleaved with driver-level probes (apply_procedure on exported procedures), then 5-35 program forms: calls of exported procedures, redefinitions of n / helper / + / secret / imported names, references to unexported names. Oracle: reference module system (one instance per library per interpreter). distinct = hash of op-kind sequence x import graph; non-trivial = a library's state was reached through another library, or two different libraries' state procedures were exercised".into()
        }
    }
    fn assumptions(&self) -> Vec<String> {
        if self.faults {
            vec![
                "a library file whose bytes are damaged inside the define-library form cannot yield a usable library: truncation gives a syntax error, an invalid byte an IO error".into(),
                "which of several independently reachable causes is reported is left open".into(),
                "after a heal/break/move event a loader may keep what it already parsed: an old version is accepted only for a library that an earlier attempt on this interpreter could have read (reachable through readable versions while that version was readable) or that was ever registered".into(),
                "imports precede the body inside every generated library, so a cycle is reachable through a library whose body faults".into(),
            ]
        } else {
            vec![
                "the reference module system (sim/src/refint.rs) is the meaning of define-library/import: one instance per library per interpreter".into(),
                "libraries keep mutable state in unexported variables and export procedures only (mutating an exported variable is an error in R7RS)".into(),
            ]
        }
    }
    fn components(&self) -> Value {
        json!({
            "real": ["parser (define-library, import sets)", "library loader, in-progress set, factory cache", "io.rs file reading", "kernel file system (tmpfs scratch directory)", "process working directory", "evaluator for library bodies"],
            "stub": ["library contents and directory layout (generated)", "entropy for HashMap keys", "evaluation budget hook"],
            "model": ["reference module system", "reachability / cycle analysis of the library graph"]
        })
    }
}
