//! Per-run scratch directories (real kernel file system; tmpfs when available).
//! Created by the run and removed by it; nothing registered depends on old content.

use std::path::{Path, PathBuf};
use std::sync::atomic::{AtomicU64, Ordering};

static COUNTER: AtomicU64 = AtomicU64::new(0);

pub fn scratch_root() -> PathBuf {
    let base = match std::env::var("VERIF_SCRATCH") {
        Ok(s) => PathBuf::from(s),
        Err(_) => {
            if Path::new("/dev/shm").is_dir() {
                PathBuf::from("/dev/shm")
            } else {
                std::env::temp_dir()
            }
        }
    };
    base.join(format!("ruschm-sim-{}", std::process::id()))
}

pub fn fresh_dir(tag: &str) -> PathBuf {
    let n = COUNTER.fetch_add(1, Ordering::SeqCst);
    let d = scratch_root().join(format!("{}-{}", tag, n));
    let _ = std::fs::remove_dir_all(&d);
    std::fs::create_dir_all(&d).expect("create scratch dir");
    d
}

pub fn remove_dir(d: &Path) {
    let _ = std::fs::remove_dir_all(d);
    // remove the per-process root when it became empty
    let _ = std::fs::remove_dir(scratch_root());
}

/// remove scratch directories left behind by processes that no longer exist
pub fn sweep_stale() {
    let base = scratch_root();
    let Some(parent) = base.parent() else { return };
    let Ok(rd) = std::fs::read_dir(parent) else { return };
    for e in rd.flatten() {
        let name = e.file_name().to_string_lossy().to_string();
        if let Some(pid) = name.strip_prefix("ruschm-sim-") {
            if let Ok(pid) = pid.parse::<u32>() {
                if !Path::new(&format!("/proc/{}", pid)).exists() {
                    let _ = std::fs::remove_dir_all(e.path());
                }
            }
        }
    }
}
