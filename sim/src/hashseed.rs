//! Seams owned by the simulator inside its own process:
//!  * `getrandom` (std resolves it through a weak symbol): the keys of every
//!    `RandomState` created on a run thread derive from the run's hash seed, so the
//!    iteration order of Ruschm's HashMaps is a function of the seed;
//!  * a panic hook that records message, location and backtrace per thread;
//!  * `on_fresh_thread`: one run = one fresh OS thread (fresh hash keys, fresh
//!    thread-local syntax table, large stack).

use std::cell::{Cell, RefCell};

thread_local! {
    static HSEED: Cell<u64> = const { Cell::new(0) };
    static GETRANDOM_CALLS: Cell<u64> = const { Cell::new(0) };
    static LAST_PANIC: RefCell<Option<PanicRecord>> = const { RefCell::new(None) };
}

#[derive(Clone, Debug)]
pub struct PanicRecord {
    pub message: String,
    pub file: String,
    pub line: u32,
    pub function: String,
}

impl PanicRecord {
    /// stable identification of a panic site: file, enclosing function, message class
    pub fn signature(&self) -> String {
        format!("{}|{}|{}", self.file, self.function, message_class(&self.message))
    }
}

pub fn message_class(msg: &str) -> String {
    let mut out = String::new();
    let mut last_hash = false;
    for c in msg.chars() {
        if c.is_ascii_digit() {
            if !last_hash {
                out.push('#');
            }
            last_hash = true;
        } else {
            last_hash = false;
            out.push(if c == '\n' { ' ' } else { c });
        }
        if out.len() >= 70 {
            break;
        }
    }
    out
}

/// # Safety
/// called by std / libc with a valid buffer
#[no_mangle]
pub unsafe extern "C" fn getrandom(buf: *mut u8, len: usize, flags: u32) -> isize {
    let s = HSEED.with(|h| h.get());
    if s == 0 {
        return libc::syscall(libc::SYS_getrandom, buf, len, flags) as isize;
    }
    let n = GETRANDOM_CALLS.with(|c| {
        let v = c.get();
        c.set(v + 1);
        v
    });
    let mut x = crate::rng::splitmix64(s ^ crate::rng::splitmix64(n));
    for i in 0..len {
        x = crate::rng::splitmix64(x);
        *buf.add(i) = (x >> 24) as u8;
    }
    len as isize
}

pub fn install_panic_hook() {
    std::panic::set_hook(Box::new(|info| {
        let message = if let Some(s) = info.payload().downcast_ref::<&str>() {
            s.to_string()
        } else if let Some(s) = info.payload().downcast_ref::<String>() {
            s.clone()
        } else {
            "<non-string panic payload>".to_string()
        };
        let (file, line) = match info.location() {
            Some(l) => (l.file().to_string(), l.line()),
            None => ("<unknown>".to_string(), 0),
        };
        let bt = std::backtrace::Backtrace::force_capture().to_string();
        let function = enclosing_function(&bt);
        let file = stable_path(&file);
        if std::env::var("VERIF_DEBUG_PANIC").is_ok() {
            eprintln!("panic: {} at {}:{} in {}", message, file, line, function);
        }
        LAST_PANIC.with(|p| {
            *p.borrow_mut() = Some(PanicRecord {
                message,
                file,
                line,
                function,
            })
        });
    }));
}

/// keep source paths stable whatever the checkout location, cargo home or toolchain build
pub fn stable_path(file: &str) -> String {
    if let Some(i) = file.find("/registry/src/") {
        // <cargo home>/registry/src/<index>/<crate-version>/src/x.rs -> <crate-version>/src/x.rs
        let rest = &file[i + "/registry/src/".len()..];
        return match rest.find('/') {
            Some(j) => rest[j + 1..].to_string(),
            None => rest.to_string(),
        };
    }
    if file.starts_with("/rustc/") {
        // /rustc/<commit>/library/... -> library/...
        return file.splitn(4, '/').nth(3).unwrap_or(file).to_string();
    }
    match file.find("src/") {
        Some(i) if file.contains("/repo/") || file.starts_with("src/") => file[i..].to_string(),
        _ => file.to_string(),
    }
}

fn enclosing_function(bt: &str) -> String {
    for line in bt.lines() {
        let l = line.trim();
        // frame lines look like "12: ruschm::parser::lexer::Lexer<I>::number"
        let Some(pos) = l.find(": ") else { continue };
        let sym = &l[pos + 2..];
        let is_ruschm = sym.starts_with("ruschm::") || sym.starts_with("<ruschm::");
        if !is_ruschm || sym.contains("verif_hooks") {
            continue;
        }
        // strip generic arguments and closure markers to keep it stable
        let mut out = String::new();
        let mut depth = 0i32;
        for c in sym.chars() {
            match c {
                '<' => depth += 1,
                '>' => depth -= 1,
                _ if depth <= 0 => out.push(c),
                _ => {}
            }
        }
        let out = out.replace("::{{closure}}", "").replace("::{closure#0}", "");
        // `<T as Trait>::f` leaves " as ..." remnants removed above; tidy "::::"
        let out = out.replace("::::", "::");
        return out.trim_matches(':').to_string();
    }
    "<unknown>".to_string()
}

pub fn take_panic() -> Option<PanicRecord> {
    LAST_PANIC.with(|p| p.borrow_mut().take())
}

pub fn set_hash_seed(seed: u64) {
    HSEED.with(|h| h.set(seed));
}

pub enum ThreadOutcome<T> {
    Done(T),
    Panicked(PanicRecord),
}

/// Run `f` on a fresh thread whose hash keys derive from `hash_seed` (0 = OS entropy).
/// A panic inside `f` that `f` did not catch itself is reported with its record.
pub fn on_fresh_thread<T: Send + 'static>(
    hash_seed: u64,
    f: impl FnOnce() -> T + Send + 'static,
) -> ThreadOutcome<T> {
    on_fresh_thread_with_stack(hash_seed, 256, f)
}

pub fn on_fresh_thread_with_stack<T: Send + 'static>(
    hash_seed: u64,
    stack_mb: usize,
    f: impl FnOnce() -> T + Send + 'static,
) -> ThreadOutcome<T> {
    let handle = std::thread::Builder::new()
        .stack_size(stack_mb << 20)
        .spawn(move || {
            set_hash_seed(hash_seed);
            let r = std::panic::catch_unwind(std::panic::AssertUnwindSafe(f));
            match r {
                Ok(v) => ThreadOutcome::Done(v),
                Err(_) => ThreadOutcome::Panicked(take_panic().unwrap_or(PanicRecord {
                    message: "<panic without record>".into(),
                    file: "<unknown>".into(),
                    line: 0,
                    function: "<unknown>".into(),
                })),
            }
        })
        .expect("spawn run thread");
    match handle.join() {
        Ok(o) => o,
        Err(_) => ThreadOutcome::Panicked(PanicRecord {
            message: "<thread died>".into(),
            file: "<unknown>".into(),
            line: 0,
            function: "<unknown>".into(),
        }),
    }
}

/// like `on_fresh_thread_with_stack`, but gives up waiting after `secs` seconds of wall time:
/// `None` means the run thread is still busy (it cannot be stopped; the process must end soon).
/// Only for runs whose work is bounded by a step budget, so that the bound is never what
/// decides an ordinary run.
pub fn on_fresh_thread_with_deadline<T: Send + 'static>(
    hash_seed: u64,
    stack_mb: usize,
    secs: u64,
    f: impl FnOnce() -> T + Send + 'static,
) -> Option<ThreadOutcome<T>> {
    let handle = std::thread::Builder::new()
        .stack_size(stack_mb << 20)
        .spawn(move || {
            set_hash_seed(hash_seed);
            let r = std::panic::catch_unwind(std::panic::AssertUnwindSafe(f));
            match r {
                Ok(v) => ThreadOutcome::Done(v),
                Err(_) => ThreadOutcome::Panicked(take_panic().unwrap_or(PanicRecord {
                    message: "<panic without record>".into(),
                    file: "<unknown>".into(),
                    line: 0,
                    function: "<unknown>".into(),
                })),
            }
        })
        .expect("spawn run thread");
    let t0 = std::time::Instant::now();
    while !handle.is_finished() {
        if t0.elapsed().as_secs() >= secs {
            return None;
        }
        std::thread::sleep(std::time::Duration::from_millis(2));
    }
    Some(match handle.join() {
        Ok(o) => o,
        Err(_) => ThreadOutcome::Panicked(PanicRecord {
            message: "<thread died>".into(),
            file: "<unknown>".into(),
            line: 0,
            function: "<unknown>".into(),
        }),
    })
}

/// catch a panic raised by the system under test inside the current run thread
pub fn guarded<T>(f: impl FnOnce() -> T) -> Result<T, PanicRecord> {
    match std::panic::catch_unwind(std::panic::AssertUnwindSafe(f)) {
        Ok(v) => Ok(v),
        Err(_) => Err(take_panic().unwrap_or(PanicRecord {
            message: "<panic without record>".into(),
            file: "<unknown>".into(),
            line: 0,
            function: "<unknown>".into(),
        })),
    }
}
