//! Engine E, "cli-sim" (C17): the real `ruschm` binary as a child process, one per
//! run, over a generated world: program file (+ sibling libraries), working
//! directory, path spelling, line ends, final newline, file-level faults, and at
//! most one injected failing form. Oracle: a marker model (which outputs, in which
//! order, up to which form; exit status; one diagnostic) and the in-process
//! evaluation of the same text (bytes, message, location).

use crate::framework::*;
use crate::hashseed::{guarded, on_fresh_thread, ThreadOutcome};
use crate::procio::*;
use crate::rng::{fnv64, Rng};
use ruschm::interpreter::Interpreter;
use serde_json::{json, Value};
use std::path::PathBuf;
use std::time::Duration;

pub struct EngineE;
pub static ENGINE_C17: EngineE = EngineE;

const PRELUDE: &str = "(import (scheme base) (scheme write))";

struct GenE {
    rng: Rng,
    next_marker: u32,
}

impl GenE {
    fn marker(&mut self) -> u32 {
        self.next_marker += 1;
        self.next_marker
    }
    fn value_expr(&mut self, depth: u32) -> String {
        let c = self.rng.upto(if depth == 0 { 7 } else { 11 });
        match c {
            0 => self.rng.range(-50, 500).to_string(),
            1 => format!("'{}", self.rng.pick(&["foo", "bar", "a-b", "x1"])),
            2 => format!("\"{}\"", self.rng.pick(&["hello", "two words", "", "semi;colon", "par(en", "line one\\nline two", "tab\\there", "quote\\\"inside"])),
            3 => format!("#\\{}", self.rng.pick(&["a", "Z", "7"])),
            4 => (if self.rng.chance(1, 2) { "#t" } else { "#f" }).to_string(),
            5 => format!("(+ {} {})", self.rng.range(0, 20), self.rng.range(0, 20)),
            6 => "'()".to_string(),
            7 => {
                let n = self.rng.range(1, 3);
                let items: Vec<String> = (0..n).map(|_| self.datum(depth - 1)).collect();
                format!("'({})", items.join(" "))
            }
            8 => {
                let n = self.rng.range(0, 3);
                let items: Vec<String> = (0..n).map(|_| self.value_expr(depth - 1)).collect();
                format!("(vector {})", items.join(" "))
            }
            9 => format!("(cons {} {})", self.value_expr(depth - 1), self.value_expr(depth - 1)),
            _ => format!("(car (cons {} 0))", self.value_expr(depth - 1)),
        }
    }
    fn datum(&mut self, depth: u32) -> String {
        let c = self.rng.upto(if depth == 0 { 3 } else { 5 });
        match c {
            0 => self.rng.range(0, 99).to_string(),
            1 => self.rng.pick(&["p", "q", "sym"]).to_string(),
            2 => "#t".to_string(),
            3 => {
                let n = self.rng.range(0, 3);
                let items: Vec<String> = (0..n).map(|_| self.datum(depth - 1)).collect();
                format!("({})", items.join(" "))
            }
            _ => {
                let n = self.rng.range(0, 2);
                let items: Vec<String> = (0..n).map(|_| self.datum(depth - 1)).collect();
                format!("#({})", items.join(" "))
            }
        }
    }
}

/// items: {"forms":[text...], "markers":[..] printed when the item succeeds,
///         "fails": bool, "markers_before_failure": [..]}
fn generate_e(seed: u64, quick: bool) -> Value {
    let mut rng = Rng::new(seed);
    let hash_seed = rng.next_u64() | 1;
    let mut g = GenE { rng, next_marker: 0 };
    let nitems = if quick { g.rng.range(3, 15) } else { g.rng.range(3, 25) } as usize;
    // sibling libraries
    let nlibs = g.rng.pick_weighted(&[5, 3, 2]);
    let mut libs: Vec<Value> = vec![];
    let mut import_sets = vec!["(scheme base)".to_string(), "(scheme write)".to_string()];
    let mut lib_load_markers: Vec<u32> = vec![];
    for i in 0..nlibs {
        let s = ["a", "b"][i];
        let load = g.marker();
        let call = g.marker();
        let dep = if i == 1 && g.rng.chance(1, 2) { " (lib a)" } else { "" };
        let text = format!(
            "(define-library (lib {s})\n  (import (scheme base) (scheme write){dep})\n  (export show-{s})\n  (begin\n    (display \"<<{load}>>\")\n    (define (show-{s} x) (display \"<<{call}>>\") x)))\n",
            s = s, dep = dep, load = load, call = call
        );
        // the second library is sometimes unusable: the import that reaches it is the failing form
        let broken = if i == 1 && g.rng.chance(1, 4) { *g.rng.pick(&["body", "syntax", "name"]) } else { "" };
        let text = match broken {
            "body" => text.replacen("(define (show-", "(car 5)\n    (define (show-", 1),
            "syntax" => {
                let t = text.trim_end();
                format!("{}\n", &t[..t.len() - 1])
            }
            "name" => text.replacen("(define-library (lib b)", "(define-library (lib b-elsewhere)", 1),
            _ => text,
        };
        libs.push(json!({"short": s, "text": text, "call_marker": call, "load_marker": load, "broken": broken}));
        import_sets.push(format!("(lib {})", s));
        lib_load_markers.push(load);
    }
    let mut items: Vec<Value> = vec![];
    // the import part: one declaration, or one per import set
    if g.rng.chance(1, 2) {
        items.push(json!({"forms": [format!("(import {})", import_sets.join(" "))], "markers": lib_load_markers, "kind": "import"}));
    } else {
        items.push(json!({"forms": [PRELUDE], "markers": [], "kind": "import"}));
        for (i, l) in libs.iter().enumerate() {
            // (lib b) may already have loaded (lib a)
            let _ = i;
            items.push(json!({"forms": [format!("(import (lib {}))", l["short"].as_str().unwrap())], "markers": [], "kind": "import-lib"}));
        }
        // loading order is the declaration order; a dependency loads at its first import.
        // markers are attached to the items below by the load order computed in `expected_markers`.
    }
    let fault_at = if g.rng.chance(2, 3) { Some(1 + g.rng.upto(nitems)) } else { None };
    let mut defined_f = false;
    let mut count = 0usize;
    while count < nitems {
        count += 1;
        if Some(count) == fault_at {
            // one injected failing form
            let c = g.rng.upto(18);
            let pre = g.marker();
            let item = match c {
                0 => json!({"forms": ["(car 5)"], "markers_before_failure": [], "kind": "fault-type"}),
                1 => json!({"forms": ["(display undefined-variable)"], "markers_before_failure": [], "kind": "fault-unbound"}),
                2 => json!({"forms": ["(vector-ref (vector 1) 5)"], "markers_before_failure": [], "kind": "fault-index"}),
                3 => json!({"forms": ["(/ 1 0)"], "markers_before_failure": [], "kind": "fault-divzero"}),
                4 => json!({"forms": ["(define (two a b) a)", "(two 1 2 3)"], "markers_before_failure": [], "kind": "fault-arity"}),
                5 => json!({"forms": ["(\"notproc\" 1)"], "markers_before_failure": [], "kind": "fault-notproc"}),
                6 => json!({"forms": [format!("(define (boom) (display \"<<{}>>\") (car 5))", pre), "(boom)".to_string()], "markers_before_failure": [pre], "kind": "fault-in-procedure"}),
                7 => json!({"forms": [format!("(define (boom2 n) (if (= n 0) (vector-ref (vector) 0) (boom2 (- n 1))))"), format!("(display \"<<{}>>\")", pre), "(boom2 3)".to_string()], "markers_before_failure": [pre], "kind": "fault-tail"}),
                8 => json!({"forms": [")"], "markers_before_failure": [], "kind": "syntax-stray-paren"}),
                9 => json!({"forms": ["(define)"], "markers_before_failure": [], "kind": "syntax-define"}),
                10 => json!({"forms": ["(if)"], "markers_before_failure": [], "kind": "syntax-if"}),
                11 => json!({"forms": ["(lambda)"], "markers_before_failure": [], "kind": "syntax-lambda"}),
                12 => json!({"forms": ["#<"], "markers_before_failure": [], "kind": "syntax-token"}),
                13 => json!({"forms": ["(display \"unterminated)"], "markers_before_failure": [], "kind": "syntax-unterminated-string"}),
                14 => json!({"forms": ["(import (lib missing))"], "markers_before_failure": [], "kind": "late-or-failing-import"}),
                16 => json!({"forms": ["(define doomed (car 5))"], "markers_before_failure": [], "kind": "fault-in-definition-initialiser"}),
                17 => json!({"forms": [format!("(define (show-then-fail) (display \"<<{}>>\") (apply car '(1 2)))", pre), "(define doomed2 (show-then-fail))".to_string()], "markers_before_failure": [pre], "kind": "fault-in-definition-through-apply"}),
                _ => json!({"forms": [format!("(display \"<<{}>>\")", pre), "(vector-set! #(1 2) 0 1)".to_string()], "markers_before_failure": [pre], "kind": "fault-immutable"}),
            };
            let mut item = item;
            item["fails"] = json!(true);
            item["markers"] = json!([]);
            items.push(item);
            continue;
        }
        let c = g.rng.upto(10);
        match c {
            9 if g.rng.chance(1, 2) => {
                if !g.rng.chance(1, 2) {
                    count -= 1;
                    continue;
                }
                // one displayed text with a line break in it and a long tail without one: every
                // byte of it must arrive
                let m1 = g.marker();
                let m2 = g.marker();
                let n = *g.rng.pick(&[200usize, 1023, 1024, 1500, 9000]);
                let tail: String = (0..n).map(|i| (b'a' + (i % 17) as u8) as char).collect();
                let literal = format!("head\n{}", tail);
                items.push(json!({"forms": [format!("(display \"<<{}>>\")", m1), format!("(display \"head\\n{}\")", tail), format!("(display \"<<{}>>\")", m2)],
                    "markers": [m1, m2], "kind": "display-long-text", "literal": literal}));
            }
            9 => {
                if !g.rng.chance(1, 4) {
                    count -= 1;
                    continue;
                }
                // a long definition: the file grows past the reader's and the pipe's buffer sizes
                let n = *g.rng.pick(&[3000usize, 8150, 8192, 20000, 70000]);
                // ... sometimes made of characters that take two or three bytes each, so that
                // wherever a reader cuts the file into pieces a character may straddle the cut
                let unit = *g.rng.pick(&["", "", "é", "я", "€"]);
                let filler: String = if unit.is_empty() {
                    (0..n).map(|i| (b'a' + (i % 23) as u8) as char).collect()
                } else {
                    let lead = "xyz"[..g.rng.upto(3)].to_string();
                    format!("{}{}", lead, unit.repeat(n / unit.len()))
                };
                items.push(json!({"forms": [format!("(define filler{} \"{}\")", count, filler)], "markers": [], "kind": "long-definition"}));
            }
            8 => {
                if !g.rng.chance(1, 3) {
                    count -= 1;
                    continue;
                }
                // a lot of output without a newline: more than std's buffer, sometimes more than a pipe holds
                let m = g.marker();
                let k = *g.rng.pick(&[50u32, 200, 1500, 9000]);
                let a = format!("rep{}", count);
                let b = format!("rep{}b", count);
                items.push(json!({"forms": [
                    format!("(define ({} n) (if (= n 0) 0 ({} n)))", a, b),
                    format!("(define ({} n) (display \"<<{}>>\") ({} (- n 1)))", b, m, a),
                    format!("({} {})", a, k)], "markers": vec![m; k as usize], "kind": "bulk-output"}));
            }
            0 | 1 | 2 => {
                let m1 = g.marker();
                let m2 = g.marker();
                let v = g.value_expr(2);
                items.push(json!({"forms": [format!("(display \"<<{}>>\")", m1), format!("(display {})", v), format!("(display \"<<{}>>\")", m2)], "markers": [m1, m2], "kind": "display-value"}));
            }
            3 if g.rng.chance(1, 2) => {
                // an expression whose value nobody displays: it is evaluated and nothing is written
                let v = *g.rng.pick(&["(+ 1 2)", "'sym", "\"a string\"", "(list 1 2)", "(vector 1 2)", "car", "(lambda (x) x)", "#t", "(if #f #f)", "1/2"]);
                items.push(json!({"forms": [v], "markers": [], "kind": "bare-value"}));
            }
            3 => items.push(json!({"forms": ["(newline)"], "markers": [], "kind": "newline"})),
            4 => {
                let m = g.marker();
                items.push(json!({"forms": [format!("(display \"<<{}>>\")", m)], "markers": [m], "kind": "display-marker"}));
            }
            5 => {
                let name = format!("x{}", count);
                let v = g.value_expr(1);
                let m1 = g.marker();
                items.push(json!({"forms": [format!("(define {} {})", name, v), format!("(display \"<<{}>>\")", m1), format!("(display {})", name)], "markers": [m1], "kind": "define-and-show"}));
            }
            6 => {
                let m1 = g.marker();
                if !defined_f {
                    defined_f = true;
                    items.push(json!({"forms": ["(define (twice-show x) (display x) (display x) x)"], "markers": [], "kind": "define-proc"}));
                }
                items.push(json!({"forms": [format!("(twice-show \"<<{}>>\")", m1)], "markers": [m1, m1], "kind": "call-proc"}));
            }
            _ => {
                if libs.is_empty() {
                    let m = g.marker();
                    items.push(json!({"forms": [format!("(display \"<<{}>>\")", m)], "markers": [m], "kind": "display-marker"}));
                } else {
                    let l = g.rng.pick(&libs).clone();
                    let m = l["call_marker"].as_u64().unwrap() as u32;
                    items.push(json!({"forms": [format!("(show-{} {})", l["short"].as_str().unwrap(), g.rng.range(0, 9))], "markers": [m], "kind": "call-library"}));
                }
            }
        }
    }
    // a program file that starts with an interpreter line: the text `#!...` is not Scheme, and
    // the file is evaluated exactly as the same text is through the library interface
    if g.rng.chance(1, 20) {
        let line = *g.rng.pick(&["#!/usr/bin/env ruschm", "#!ruschm", "#! /usr/local/bin/ruschm -q"]);
        items.insert(0, json!({"forms": [line], "markers": [], "markers_before_failure": [], "kind": "interpreter-line-first", "fails": true}));
    }
    // layout and world
    let file_fault = if g.rng.chance(1, 6) {
        *g.rng.pick(&["missing", "directory", "empty", "not-utf8", "truncated"])
    } else {
        "none"
    };
    // "removed": a working directory that no longer exists when the program starts (asking
    // the system for it fails); FILE is absolute then, so nothing depends on it
    let cwd = if g.rng.chance(1, 12) { "removed" } else { *g.rng.pick(&["progdir", "parent", "decoy", "root"]) };
    let spelling = match cwd {
        "progdir" if g.rng.chance(1, 10) => "through-missing-dir",
        "progdir" => *g.rng.pick(&["relative", "dot", "absolute", "dotdot"]),
        "parent" => *g.rng.pick(&["relative", "dot", "absolute", "dotdot"]),
        "decoy" => *g.rng.pick(&["relative", "absolute"]),
        "removed" => "absolute",
        _ => *g.rng.pick(&["relative", "absolute"]),
    };
    json!({
        "seed": seed,
        "hash_seed": hash_seed,
        "items": items,
        "libs": libs,
        "crlf": g.rng.chance(1, 4),
        "final_newline": g.rng.chance(2, 3),
        "one_line_per_form": g.rng.chance(2, 3),
        "split_forms": g.rng.chance(1, 3),
        "tail": *g.rng.pick(&["", "", "", "comment", "blanks"]),
        "file_fault": file_fault,
        "cut": g.rng.below(100_000),
        "cwd": cwd,
        "spelling": spelling,
        // the program may also arrive through a named pipe: a file whose size says nothing
        "file_kind": if file_fault == "none" && g.rng.chance(1, 15) { "fifo" } else { "regular" },
        "file_name": if g.rng.chance(1, 4) { *g.rng.pick(&["my program.scm", "прог.scm", "main", "a.b.scm", "MAIN.SCM"]) } else { "main.scm" },
    })
}

fn program_text(case: &Value) -> String {
    let nl = if case["crlf"].as_bool().unwrap_or(false) { "\r\n" } else { "\n" };
    let sep = if case["one_line_per_form"].as_bool().unwrap_or(true) { nl } else { " " };
    let split = case["split_forms"].as_bool().unwrap_or(false);
    // layout choices are a function of the case alone
    let mut lrng = Rng::new(case["seed"].as_u64().unwrap_or(0) ^ 0x1a40_77);
    let mut forms: Vec<String> = vec![];
    for it in case["items"].as_array().cloned().unwrap_or_default() {
        for f in it["forms"].as_array().cloned().unwrap_or_default() {
            let f = f.as_str().unwrap_or("").to_string();
            // deliberately malformed forms keep their spelling
            let balanced = crate::engine_f::tokens(&f).iter().fold(0i32, |d, t| d + match t.as_str() { "(" | "#(" => 1, ")" => -1, _ => 0 }) == 0;
            if split && balanced && !f.contains("#<") {
                // the form laid out over several lines, broken at inter-token positions
                let toks = crate::engine_f::tokens(&f);
                let mut out = String::new();
                for (i, t) in toks.iter().enumerate() {
                    if i > 0 && toks[i - 1] != "'" {
                        out.push_str(match lrng.upto(6) {
                            0 => nl,
                            1 => "\t",
                            2 => "  ",
                            _ => " ",
                        });
                    }
                    out.push_str(t);
                }
                if lrng.chance(1, 6) {
                    out.push_str(" ; comment (after a form");
                    out.push_str(nl);
                }
                forms.push(out);
            } else {
                forms.push(f);
            }
        }
    }
    let mut text = forms.join(sep);
    match case["tail"].as_str().unwrap_or("") {
        "comment" => {
            text.push_str(sep);
            text.push_str("; the file ends in a comment (without a line end");
        }
        "blanks" => text.push_str("  \t "),
        _ => {}
    }
    if case["final_newline"].as_bool().unwrap_or(true) {
        text.push_str(nl);
    }
    text
}

/// marker sequence the program must print, and whether it fails
/// `reverse`: the import sets of ONE declaration taken in the opposite order (which order an
/// implementation loads them in is not fixed by anything the property says)
fn expected_markers(case: &Value, reverse: bool) -> (Vec<u32>, bool) {
    let libs = case["libs"].as_array().cloned().unwrap_or_default();
    let mut loaded: Vec<String> = vec![];
    let mut out: Vec<u32> = vec![];
    let mut load = |s: &str, out: &mut Vec<u32>, loaded: &mut Vec<String>| -> bool {
        // a library loads its dependency first, once; false = the load fails
        fn go(s: &str, libs: &[Value], out: &mut Vec<u32>, loaded: &mut Vec<String>) -> bool {
            if loaded.iter().any(|l| l == s) {
                return true;
            }
            if let Some(l) = libs.iter().find(|l| l["short"].as_str() == Some(s)) {
                let broken = l["broken"].as_str().unwrap_or("");
                if broken == "syntax" || broken == "name" {
                    return false;
                }
                if l["text"].as_str().unwrap_or("").contains("(scheme write) (lib a)") && !go("a", libs, out, loaded) {
                    return false;
                }
                out.push(l["load_marker"].as_u64().unwrap_or(0) as u32);
                if broken == "body" {
                    return false;
                }
            }
            loaded.push(s.to_string());
            true
        }
        go(s, &libs, out, loaded)
    };
    for it in case["items"].as_array().cloned().unwrap_or_default() {
        let kind = it["kind"].as_str().unwrap_or("");
        if kind == "import" || kind == "import-lib" {
            let text = it["forms"][0].as_str().unwrap_or("").to_string();
            let order = if reverse { ["b", "a"] } else { ["a", "b"] };
            for s in order {
                if text.contains(&format!("(lib {})", s)) && !load(s, &mut out, &mut loaded) {
                    return (out, true);
                }
            }
            continue;
        }
        if it["fails"].as_bool().unwrap_or(false) {
            for m in it["markers_before_failure"].as_array().cloned().unwrap_or_default() {
                out.push(m.as_u64().unwrap_or(0) as u32);
            }
            return (out, true);
        }
        for m in it["markers"].as_array().cloned().unwrap_or_default() {
            out.push(m.as_u64().unwrap_or(0) as u32);
        }
    }
    (out, false)
}

fn markers_in(bytes: &[u8]) -> Vec<u32> {
    let s = String::from_utf8_lossy(bytes);
    let mut out = vec![];
    let mut rest: &str = &s;
    while let Some(i) = rest.find("<<") {
        let after = &rest[i + 2..];
        if let Some(j) = after.find(">>") {
            if let Ok(n) = after[..j].parse::<u32>() {
                out.push(n);
            }
            rest = &after[j + 2..];
        } else {
            break;
        }
    }
    out
}

/// a panic message carries the OS thread id: keep it out of the event log
fn mask_thread_id(s: &str) -> String {
    let mut out = String::new();
    let mut rest = s;
    while let Some(i) = rest.find("' (") {
        let after = &rest[i + 3..];
        if let Some(j) = after.find(')') {
            if after[..j].chars().all(|c| c.is_ascii_digit()) {
                out.push_str(&rest[..i + 3]);
                out.push('#');
                rest = &after[j..];
                continue;
            }
        }
        out.push_str(&rest[..i + 3]);
        rest = after;
    }
    out.push_str(rest);
    out
}

fn decoy_text(s: &str) -> String {
    format!(
        "(define-library (lib {s})\n (import (scheme base) (scheme write))\n (export show-{s})\n (begin (display \"<<9999>>\") (define (show-{s} x) (display \"<<9998>>\") x)))\n",
        s = s
    )
}

fn execute_e(case: Value) -> RunResult {
    let mut res = RunResult::default();
    let hash_seed = case["hash_seed"].as_u64().unwrap_or(1);
    let root = crate::sandbox::fresh_dir("cli");
    let prog = root.join("top").join("prog");
    let decoy = root.join("top").join("elsewhere");
    std::fs::create_dir_all(prog.join("lib")).unwrap();
    std::fs::create_dir_all(decoy.join("lib")).unwrap();
    for s in ["a", "b", "missing"] {
        std::fs::write(decoy.join("lib").join(format!("{}.sld", s)), decoy_text(s)).unwrap();
    }
    for l in case["libs"].as_array().cloned().unwrap_or_default() {
        std::fs::write(
            prog.join("lib").join(format!("{}.sld", l["short"].as_str().unwrap_or("x"))),
            l["text"].as_str().unwrap_or(""),
        )
        .unwrap();
    }
    // the program file's name is the user's business: spaces, other scripts, no extension
    let fname = case["file_name"].as_str().unwrap_or("main.scm").to_string();
    let file = prog.join(&fname);
    let mut text_bytes = program_text(&case).into_bytes();
    let file_fault = case["file_fault"].as_str().unwrap_or("none").to_string();
    // a path through a directory that does not exist reaches no file, whatever lies beyond
    let unreachable_path = case["spelling"].as_str() == Some("through-missing-dir") && case["cwd"].as_str() == Some("progdir");
    let cut = case["cut"].as_u64().unwrap_or(0) as usize;
    match file_fault.as_str() {
        "missing" => {}
        "directory" => std::fs::create_dir_all(&file).unwrap(),
        "empty" => {
            text_bytes.clear();
            std::fs::write(&file, &text_bytes).unwrap();
        }
        "not-utf8" => {
            let at = if text_bytes.is_empty() { 0 } else { cut % text_bytes.len() };
            text_bytes.insert(at, 0xFF);
            std::fs::write(&file, &text_bytes).unwrap();
        }
        "truncated" => {
            let at = if text_bytes.len() < 2 { 0 } else { 1 + cut % (text_bytes.len() - 1) };
            text_bytes.truncate(at);
            std::fs::write(&file, &text_bytes).unwrap();
        }
        _ if case["file_kind"].as_str() == Some("fifo") => {
            use std::os::unix::ffi::OsStrExt;
            let c = std::ffi::CString::new(file.as_os_str().as_bytes()).unwrap();
            if unsafe { libc::mkfifo(c.as_ptr(), 0o600) } != 0 {
                crate::sandbox::remove_dir(&root);
                res.invalid = Some("cannot create a named pipe".into());
                return res;
            }
        }
        _ => std::fs::write(&file, &text_bytes).unwrap(),
    }
    // from here on the run is judged like a missing file (the file itself is in place)
    let file_fault = if unreachable_path { "missing".to_string() } else { file_fault };
    let cwd: PathBuf = match case["cwd"].as_str().unwrap_or("progdir") {
        "progdir" => prog.clone(),
        "parent" => root.join("top"),
        "decoy" => decoy.clone(),
        "removed" => {
            let d = root.join("gone");
            std::fs::create_dir_all(&d).unwrap();
            d
        }
        _ => PathBuf::from("/"),
    };
    let remove_cwd = case["cwd"].as_str() == Some("removed");
    let abs = file.to_string_lossy().to_string();
    let given: String = match (case["cwd"].as_str().unwrap_or("progdir"), case["spelling"].as_str().unwrap_or("absolute")) {
        ("progdir", "relative") => fname.clone(),
        ("progdir", "dot") => format!("./{}", fname),
        ("progdir", "dotdot") => format!("../prog/{}", fname),
        // the operating system does not find a file through a directory that does not exist
        ("progdir", "through-missing-dir") => format!("no-such-dir/../{}", fname),
        ("parent", "relative") => format!("prog/{}", fname),
        ("parent", "dot") => format!("./prog/{}", fname),
        ("parent", "dotdot") => format!("prog/../prog/{}", fname),
        ("decoy", "relative") => format!("../prog/{}", fname),
        ("root", "relative") => abs.trim_start_matches('/').to_string(),
        _ => abs.clone(),
    };
    // the sandbox location (process id, counter) must not leak into the event log
    let root_str = root.to_string_lossy().to_string();
    let root_rel = root_str.trim_start_matches('/').to_string();
    let norm = move |s: String| s.replace(&root_str, "<SANDBOX>").replace(&root_rel, "<SANDBOX>");
    res.log.push(norm(format!(
        "seed={} hash_seed={} cwd={} path={} crlf={} final_newline={} file_fault={}",
        case["seed"], hash_seed, case["cwd"], given, case["crlf"], case["final_newline"], file_fault
    )));
    // ---- the real binary
    // a named pipe needs somebody at the other end: a writer that waits for the program to open
    // the file, hands over the text and closes
    let fifo_stop = std::sync::Arc::new(std::sync::atomic::AtomicBool::new(false));
    let fifo_writer = if case["file_kind"].as_str() == Some("fifo") && file_fault == "none" {
        let path = file.clone();
        let bytes = text_bytes.clone();
        let stop = fifo_stop.clone();
        res.count("file_kind.fifo");
        Some(std::thread::spawn(move || {
            use std::io::Write;
            use std::os::unix::fs::OpenOptionsExt;
            loop {
                if stop.load(std::sync::atomic::Ordering::SeqCst) {
                    return;
                }
                match std::fs::OpenOptions::new().write(true).custom_flags(libc::O_NONBLOCK).open(&path) {
                    Ok(mut f) => {
                        use std::os::unix::io::AsRawFd;
                        unsafe {
                            let fl = libc::fcntl(f.as_raw_fd(), libc::F_GETFL);
                            libc::fcntl(f.as_raw_fd(), libc::F_SETFL, fl & !libc::O_NONBLOCK);
                        }
                        let _ = f.write_all(&bytes);
                        return;
                    }
                    // nobody has opened the other end yet
                    Err(_) => std::thread::sleep(Duration::from_micros(300)),
                }
            }
        }))
    } else {
        None
    };
    let child = run_cli_opt(&cwd, hash_seed, &[given.clone()], Duration::from_secs(90), remove_cwd);
    fifo_stop.store(true, std::sync::atomic::Ordering::SeqCst);
    if let Some(h) = fifo_writer {
        let _ = h.join();
    }
    // the in-process side cannot stand in a directory that is gone; with an absolute FILE the
    // root directory is as good
    let cwd = if remove_cwd { PathBuf::from("/") } else { cwd };
    let child = match child {
        Ok(c) => c,
        Err(e) => {
            crate::sandbox::remove_dir(&root);
            res.invalid = Some(format!("cannot run the ruschm binary: {}", e));
            return res;
        }
    };
    let stderr_text = strip_ansi(&child.stderr);
    res.log.push(norm(format!(
        "binary: status={:?} signal={:?} stdout={:?} stderr={:?}",
        child.code,
        child.signal,
        String::from_utf8_lossy(&child.stdout),
        mask_thread_id(&stderr_text)
    )));
    // ---- the same text through the library interface, in this process
    let _ = std::env::set_current_dir(&cwd);
    let text_utf8 = String::from_utf8(text_bytes.clone()).ok();
    let readable = !matches!(file_fault.as_str(), "missing" | "directory" | "not-utf8");
    let mut inproc: Option<(Result<(), (String, Option<[u32; 2]>)>, Vec<u8>)> = None;
    if readable {
        if let Some(text) = &text_utf8 {
            let parent = PathBuf::from(&given).parent().map(|p| p.to_path_buf());
            // the same text line by line: line ends (LF, CRLF, a missing final one) are
            // layout, not content; that nothing is lost or added is the marker model's job
            let text: String = text.lines().flat_map(|l| l.chars().chain(std::iter::once('\n'))).collect();
            let (r, captured) = capture_stdout(|| {
                guarded(|| {
                    let mut it = Interpreter::<f32>::default();
                    it.program_directory = parent;
                    it.eval(text.chars())
                })
            });
            match r {
                Ok(Ok(_)) => inproc = Some((Ok(()), captured)),
                Ok(Err(e)) => inproc = Some((Err((format!("{}", e), e.location)), captured)),
                Err(p) => {
                    // the library interface itself panicked: not this property's verdict;
                    // the binary is then only judged against the model
                    res.log.push(format!("in-process evaluation panicked: {}", p.signature()));
                    res.count("inprocess_panic");
                }
            }
        }
    }
    let _ = std::env::set_current_dir("/");
    crate::sandbox::remove_dir(&root);
    if let Some((r, cap)) = &inproc {
        res.log.push(format!("in-process: result={:?} stdout={:?}", r, String::from_utf8_lossy(cap)));
    }

    let model_applies = file_fault == "none";
    let got_markers = markers_in(&child.stdout);
    let (mut exp_markers, mut exp_fail_model) = expected_markers(&case, false);
    {
        // the other order of one declaration's import sets is as good, if that is what happened
        let (alt_markers, alt_fail) = expected_markers(&case, true);
        let n = got_markers.len().min(alt_markers.len());
        if alt_markers != exp_markers && got_markers[..n] == alt_markers[..n] && got_markers != exp_markers {
            exp_markers = alt_markers;
            exp_fail_model = alt_fail;
            res.count("probe.import_sets_of_a_declaration_in_the_other_order");
        }
    }
    let fail = |sig: &str, detail: Value, res: &mut RunResult| {
        if res.violation.is_none() {
            res.violation = Some(Violation { signature: format!("C17/{}", sig), detail });
        }
    };
    // 0. the process must end by itself, and not by a signal
    if child.timed_out {
        fail("does-not-terminate", json!({"path": given}), &mut res);
    }
    if child.signal.is_some() {
        fail("killed-by-signal", json!({"signal": child.signal, "path": given}), &mut res);
    }
    // 1. a panic is never a diagnostic
    if child.code == Some(101) && stderr_text.contains("panicked at") {
        let at = stderr_text
            .split("panicked at ")
            .nth(1)
            .and_then(|s| s.split(':').next())
            .unwrap_or("?")
            .to_string();
        fail(
            &format!("panic/{}", at),
            json!({"stderr": stderr_text.lines().take(3).collect::<Vec<_>>(), "file_fault": file_fault}),
            &mut res,
        );
    }
    // 2. expected success or failure
    let expect_fail: Option<bool> = if model_applies {
        Some(exp_fail_model)
    } else {
        match file_fault.as_str() {
            "missing" | "directory" | "not-utf8" => Some(true),
            "empty" => Some(false),
            _ => inproc.as_ref().map(|(r, _)| r.is_err()),
        }
    };
    if let Some(ef) = expect_fail {
        if ef && child.code == Some(0) {
            fail("status-zero-on-failure", json!({"path": given, "file_fault": file_fault, "stderr": stderr_text}), &mut res);
        }
        if !ef && child.code != Some(0) {
            fail("status-nonzero-on-success", json!({"status": child.code, "stderr": stderr_text}), &mut res);
        }
        // 3. stderr: empty on success, exactly one diagnostic line on failure
        if !ef && !stderr_text.is_empty() {
            fail("stderr-not-empty-on-success", json!({"stderr": stderr_text}), &mut res);
        }
        if ef {
            let lines: Vec<&str> = stderr_text.split('\n').collect();
            let one_line = lines.len() == 2 && lines[1].is_empty() && !lines[0].is_empty();
            if !one_line || !lines[0].starts_with(&given) {
                fail("diagnostic-malformed", json!({"stderr": stderr_text, "path": given}), &mut res);
            } else {
                let rest = &lines[0][given.len()..];
                // [:LINE:COL] MESSAGE
                let (loc, msg): (Option<[u32; 2]>, String) = if let Some(r) = rest.strip_prefix(':') {
                    let mut parts = r.splitn(3, |c: char| c == ':' || c == ' ');
                    let l = parts.next().and_then(|x| x.parse::<u32>().ok());
                    let c = parts.next().and_then(|x| x.parse::<u32>().ok());
                    let m = parts.next().unwrap_or("").trim_start().to_string();
                    match (l, c) {
                        (Some(l), Some(c)) => (Some([l, c]), m),
                        _ => (None, rest.trim_start().to_string()),
                    }
                } else {
                    (None, rest.trim_start().to_string())
                };
                if msg.is_empty() || !rest.starts_with(|c: char| c == ':' || c == ' ') {
                    fail("diagnostic-malformed", json!({"stderr": stderr_text, "path": given}), &mut res);
                }
                if let Some((Err((emsg, eloc)), _)) = &inproc {
                    if &msg != emsg {
                        fail("diagnostic-message-differs", json!({"binary": msg, "in_process": emsg}), &mut res);
                    } else if &loc != eloc {
                        fail("diagnostic-location-differs", json!({"binary": loc, "in_process": eloc, "message": msg}), &mut res);
                    }
                }
            }
        }
    }
    // 4. standard output: the model's markers, and the in-process bytes
    if model_applies && got_markers != exp_markers {
        let sig = if got_markers.iter().any(|m| *m >= 9000) {
            "decoy-library-loaded"
        } else if got_markers.len() > exp_markers.len() && got_markers[..exp_markers.len()] == exp_markers[..] {
            "output-after-failing-form"
        } else {
            "stdout-differs-from-model"
        };
        fail(sig, json!({"expected_markers": exp_markers, "observed_markers": got_markers}), &mut res);
    }
    if !model_applies {
        // damaged file: whatever is printed must be a prefix of the undamaged program's output
        let n = got_markers.len().min(exp_markers.len());
        if got_markers.len() > exp_markers.len() || got_markers[..n] != exp_markers[..n] {
            if file_fault != "truncated" || inproc.is_none() {
                fail("stdout-not-a-prefix-of-the-program-output", json!({"expected_markers": exp_markers, "observed_markers": got_markers, "file_fault": file_fault}), &mut res);
            }
        }
    }
    if model_applies {
        // texts displayed verbatim must arrive whole (only items before the failing one)
        let out_text = String::from_utf8_lossy(&child.stdout).to_string();
        for it in case["items"].as_array().cloned().unwrap_or_default() {
            if it["fails"].as_bool().unwrap_or(false) {
                break;
            }
            if let Some(lit) = it["literal"].as_str() {
                // judged only where the program got past this item: both its markers are there
                let ms: Vec<u32> = it["markers"].as_array().map(|a| a.iter().filter_map(|x| x.as_u64().map(|v| v as u32)).collect()).unwrap_or_default();
                if !ms.iter().all(|m| got_markers.contains(m)) {
                    continue;
                }
                if !out_text.contains(lit) {
                    fail("displayed-text-incomplete", json!({"expected_length": lit.len(), "stdout_length": out_text.len()}), &mut res);
                }
                res.count("probe.long_text_displayed");
            }
        }
    }
    if let Some((_, cap)) = &inproc {
        if cap != &child.stdout {
            fail(
                "stdout-differs-from-in-process",
                json!({"binary": String::from_utf8_lossy(&child.stdout), "in_process": String::from_utf8_lossy(cap)}),
                &mut res,
            );
        }
    }
    // bookkeeping
    let kinds: String = case["items"]
        .as_array()
        .map(|a| a.iter().map(|i| i["kind"].as_str().unwrap_or("").to_string()).collect::<Vec<_>>().join(","))
        .unwrap_or_default();
    res.sched_hash = fnv64(
        format!("{}|{}|{}|{}|{}|{}|{}", kinds, case["cwd"], case["spelling"], case["crlf"], case["final_newline"], file_fault, format!("{}{}", case["file_name"], case["file_kind"])).as_bytes(),
    );
    res.state_hashes.push(fnv64(&child.stdout));
    res.steps = case["items"].as_array().map(|a| a.len() as u64).unwrap_or(0);
    res.count(&format!("cwd.{}", case["cwd"].as_str().unwrap_or("")));
    res.count(&format!("spelling.{}", case["spelling"].as_str().unwrap_or("")));
    res.count(&format!("file_fault.{}", file_fault));
    if case["crlf"].as_bool() == Some(true) {
        res.count("layout.crlf");
    }
    if case["final_newline"].as_bool() == Some(false) {
        res.count("layout.no_final_newline");
    }
    if let Some(it) = case["items"].as_array().and_then(|a| a.iter().find(|i| i["fails"].as_bool() == Some(true)).cloned()) {
        if model_applies {
            res.count(&format!("fault_fired.{}", it["kind"].as_str().unwrap_or("")));
        }
    }
    for l in case["libs"].as_array().cloned().unwrap_or_default() {
        let b = l["broken"].as_str().unwrap_or("");
        if !b.is_empty() && model_applies {
            res.count(&format!("fault_fired.library-{}", b));
        }
    }
    res.nontrivial = !got_markers.is_empty() || expect_fail == Some(true);
    res
}

impl Engine for EngineE {
    fn property(&self) -> &'static str {
        "C17"
    }
    fn engine_name(&self) -> &'static str {
        "cli-sim"
    }
    fn level(&self) -> &'static str {
        "fault_enumeration"
    }
    fn runs(&self, quick: bool) -> u64 {
        if quick { 16_000 } else { 600_000 }
    }
    fn generate(&self, seed: u64, quick: bool) -> Value {
        generate_e(seed, quick)
    }
    fn execute(&self, case: &Value) -> RunResult {
        let hash_seed = case["hash_seed"].as_u64().unwrap_or(1);
        let c = case.clone();
        match on_fresh_thread(hash_seed, move || execute_e(c)) {
            ThreadOutcome::Done(r) => r,
            ThreadOutcome::Panicked(p) => {
                let _ = std::env::set_current_dir("/");
                let mut r = RunResult::default();
                r.invalid = Some(format!("harness panic: {} at {}:{}", p.message, p.file, p.line));
                r
            }
        }
    }
    fn shrink(&self, case: &Value) -> Vec<Value> {
        let mut out = vec![];
        // drop items, but never the first import
        if let Some(items) = case["items"].as_array() {
            let n = items.len();
            let mut chunk = n / 2;
            while chunk >= 2 {
                let mut start = 1;
                while start < n {
                    let end = (start + chunk).min(n);
                    let mut v = items[..start].to_vec();
                    v.extend_from_slice(&items[end..]);
                    out.push(with_field(case, "items", json!(v)));
                    start = end;
                }
                chunk /= 2;
            }
            for i in (1..n).rev() {
                out.push(with_field(case, "items", json!(without_index(items, i))));
            }
        }
        for (k, v) in [
            ("crlf", json!(false)),
            ("final_newline", json!(true)),
            ("one_line_per_form", json!(true)),
            ("split_forms", json!(false)),
            ("tail", json!("")),
            ("file_fault", json!("none")),
            ("cwd", json!("progdir")),
            ("spelling", json!("absolute")),
            ("hash_seed", json!(1)),
        ] {
            if case[k] != v {
                out.push(with_field(case, k, v));
            }
        }
        out
    }
    fn rule(&self) -> String {
        "seeded process runs of the real binary (further variations, see DESIGN.md 4.7: working directory removed before start, program through a named pipe, interpreter line first, file names with spaces / other scripts, multi-byte filler, bare value expressions, long displayed literals, bulk output): programs of 3-25 items (display of values bracketed by unique marker strings, definitions, calls, imports of sibling libraries that print at load time) with in two thirds of the runs exactly one failing form (8 run-time fault shapes incl. inside a procedure after output and in tail position, 6 syntax errors, failing/late import) at a random index; file-level faults in a sixth of the runs (missing, directory, empty, invalid UTF-8 at byte k, truncated at byte k); working directory in {program dir, parent, unrelated dir with decoy libraries, /} x path spelling {relative, ./, absolute, through ..}; LF or CRLF; with/without final newline; one form per line or all on one line; hash seed through LD_PRELOAD. distinct = item kinds x layout x world; non-trivial = the run printed at least one marker or was expected to fail".into()
    }
    fn assumptions(&self) -> Vec<String> {
        vec![
            "the marker model fixes which outputs appear, in which order and up to which form; how a value is rendered is taken from the in-process run of the same build".into(),
            "the diagnostic is compared with the in-process error of the same text: same Display text, same location".into(),
            "a file that is not valid UTF-8 counts as unreadable; whatever it printed before the diagnostic must be a prefix of the program's output".into(),
            "write errors on stdout/stderr and signals are not injected (the property gives no verdict for them)".into(),
        ]
    }
    fn components(&self) -> Value {
        json!({
            "real": ["target ruschm binary built from /repo (main.rs, io.rs, std stdout buffering, termcolor)", "kernel pipes and file system", "in-process Interpreter::eval for the differential"],
            "stub": ["entropy for HashMap keys (LD_PRELOAD shim)", "program and library files, working directory, path spelling (generated)", "the launching shell (none: execve directly, empty environment)"],
            "model": ["marker sequence / exit status / diagnostic shape"]
        })
    }
}
