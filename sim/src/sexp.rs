//! The simulator's own S-expression type: programs are generated as `Sx`,
//! rendered to text for Ruschm, and interpreted directly by the reference model.
//! Replay files carry forms as text; `parse_all` reads them back.

use std::fmt::Write;

#[derive(Clone, Debug, PartialEq, Eq, PartialOrd, Ord)]
pub enum Sx {
    Int(i64),
    Bool(bool),
    Char(char),
    Str(String),
    Sym(String),
    List(Vec<Sx>),
    /// (a b . c)
    Dotted(Vec<Sx>, Box<Sx>),
    Vector(Vec<Sx>),
}

pub fn sym(s: &str) -> Sx {
    Sx::Sym(s.to_string())
}
pub fn int(i: i64) -> Sx {
    Sx::Int(i)
}
pub fn list(xs: Vec<Sx>) -> Sx {
    Sx::List(xs)
}
pub fn quote(x: Sx) -> Sx {
    Sx::List(vec![sym("quote"), x])
}
pub fn call(f: &str, args: Vec<Sx>) -> Sx {
    let mut v = vec![sym(f)];
    v.extend(args);
    Sx::List(v)
}

impl Sx {
    pub fn as_sym(&self) -> Option<&str> {
        match self {
            Sx::Sym(s) => Some(s),
            _ => None,
        }
    }
    pub fn head_sym(&self) -> Option<&str> {
        match self {
            Sx::List(v) => v.first().and_then(|h| h.as_sym()),
            _ => None,
        }
    }
    pub fn to_text(&self) -> String {
        let mut s = String::new();
        self.write(&mut s);
        s
    }
    pub fn write(&self, out: &mut String) {
        match self {
            Sx::Int(i) => {
                let _ = write!(out, "{}", i);
            }
            Sx::Bool(true) => out.push_str("#t"),
            Sx::Bool(false) => out.push_str("#f"),
            Sx::Char(c) => {
                out.push_str("#\\");
                out.push(*c);
            }
            Sx::Str(s) => {
                out.push('"');
                for c in s.chars() {
                    match c {
                        '"' => out.push_str("\\\""),
                        '\\' => out.push_str("\\\\"),
                        '\n' => out.push_str("\\n"),
                        '\t' => out.push_str("\\t"),
                        c => out.push(c),
                    }
                }
                out.push('"');
            }
            Sx::Sym(s) => out.push_str(s),
            Sx::List(v) => {
                if v.len() == 2 && v[0] == Sx::Sym("quote".into()) {
                    out.push('\'');
                    v[1].write(out);
                    return;
                }
                out.push('(');
                for (i, x) in v.iter().enumerate() {
                    if i > 0 {
                        out.push(' ');
                    }
                    x.write(out);
                }
                out.push(')');
            }
            Sx::Dotted(v, t) => {
                out.push('(');
                for x in v.iter() {
                    x.write(out);
                    out.push(' ');
                }
                out.push_str(". ");
                t.write(out);
                out.push(')');
            }
            Sx::Vector(v) => {
                out.push_str("#(");
                for (i, x) in v.iter().enumerate() {
                    if i > 0 {
                        out.push(' ');
                    }
                    x.write(out);
                }
                out.push(')');
            }
        }
    }
    /// number of nodes, used by the minimiser to prefer smaller programs
    pub fn size(&self) -> usize {
        match self {
            Sx::List(v) | Sx::Vector(v) => 1 + v.iter().map(|x| x.size()).sum::<usize>(),
            Sx::Dotted(v, t) => 1 + v.iter().map(|x| x.size()).sum::<usize>() + t.size(),
            _ => 1,
        }
    }
}

impl std::fmt::Display for Sx {
    fn fmt(&self, f: &mut std::fmt::Formatter<'_>) -> std::fmt::Result {
        f.write_str(&self.to_text())
    }
}

// ---------------------------------------------------------------- parser

struct P<'a> {
    s: &'a [char],
    i: usize,
}

fn is_delim(c: char) -> bool {
    c.is_whitespace() || c == '(' || c == ')' || c == '"' || c == ';'
}

impl<'a> P<'a> {
    fn skip_ws(&mut self) {
        while self.i < self.s.len() {
            let c = self.s[self.i];
            if c.is_whitespace() {
                self.i += 1;
            } else if c == ';' {
                while self.i < self.s.len() && self.s[self.i] != '\n' {
                    self.i += 1;
                }
            } else {
                break;
            }
        }
    }
    fn parse(&mut self) -> Result<Sx, String> {
        self.skip_ws();
        if self.i >= self.s.len() {
            return Err("eof".into());
        }
        let c = self.s[self.i];
        match c {
            '(' => {
                self.i += 1;
                self.parse_seq(false)
            }
            ')' => Err("unexpected )".into()),
            '\'' => {
                self.i += 1;
                Ok(quote(self.parse()?))
            }
            '"' => {
                self.i += 1;
                let mut out = String::new();
                loop {
                    if self.i >= self.s.len() {
                        return Err("eof in string".into());
                    }
                    let c = self.s[self.i];
                    self.i += 1;
                    match c {
                        '"' => break,
                        '\\' => {
                            let e = *self.s.get(self.i).ok_or("eof in escape")?;
                            self.i += 1;
                            out.push(match e {
                                'n' => '\n',
                                't' => '\t',
                                o => o,
                            });
                        }
                        c => out.push(c),
                    }
                }
                Ok(Sx::Str(out))
            }
            '#' => {
                let n = self.s.get(self.i + 1).copied();
                match n {
                    Some('(') => {
                        self.i += 2;
                        self.parse_seq(true)
                    }
                    Some('\\') => {
                        let ch = *self.s.get(self.i + 2).ok_or("eof in char")?;
                        self.i += 3;
                        Ok(Sx::Char(ch))
                    }
                    Some('t') => {
                        self.i += 2;
                        Ok(Sx::Bool(true))
                    }
                    Some('f') => {
                        self.i += 2;
                        Ok(Sx::Bool(false))
                    }
                    _ => Err("bad #".into()),
                }
            }
            '|' => {
                // |an identifier with anything in it|: kept verbatim, bars included
                let start = self.i;
                self.i += 1;
                while self.i < self.s.len() && self.s[self.i] != '|' {
                    self.i += 1;
                }
                if self.i >= self.s.len() {
                    return Err("eof in |identifier|".into());
                }
                self.i += 1;
                Ok(Sx::Sym(self.s[start..self.i].iter().collect()))
            }
            _ => {
                let start = self.i;
                while self.i < self.s.len() && !is_delim(self.s[self.i]) {
                    self.i += 1;
                }
                let tok: String = self.s[start..self.i].iter().collect();
                if let Ok(i) = tok.parse::<i64>() {
                    Ok(Sx::Int(i))
                } else {
                    Ok(Sx::Sym(tok))
                }
            }
        }
    }
    fn parse_seq(&mut self, vector: bool) -> Result<Sx, String> {
        let mut items = vec![];
        let mut tail = None;
        loop {
            self.skip_ws();
            if self.i >= self.s.len() {
                return Err("eof in list".into());
            }
            if self.s[self.i] == ')' {
                self.i += 1;
                break;
            }
            if self.s[self.i] == '.'
                && self.s.get(self.i + 1).map(|c| is_delim(*c)).unwrap_or(true)
                && !vector
            {
                self.i += 1;
                tail = Some(Box::new(self.parse()?));
                self.skip_ws();
                if self.s.get(self.i) != Some(&')') {
                    return Err("bad dotted list".into());
                }
                self.i += 1;
                break;
            }
            items.push(self.parse()?);
        }
        Ok(if vector {
            Sx::Vector(items)
        } else if let Some(t) = tail {
            Sx::Dotted(items, t)
        } else {
            Sx::List(items)
        })
    }
}

pub fn parse_all(text: &str) -> Result<Vec<Sx>, String> {
    let chars: Vec<char> = text.chars().collect();
    let mut p = P { s: &chars, i: 0 };
    let mut out = vec![];
    loop {
        p.skip_ws();
        if p.i >= chars.len() {
            break;
        }
        out.push(p.parse()?);
    }
    Ok(out)
}

pub fn parse_one(text: &str) -> Result<Sx, String> {
    let mut v = parse_all(text)?;
    if v.len() != 1 {
        return Err(format!("expected one form, got {}", v.len()));
    }
    Ok(v.pop().unwrap())
}
