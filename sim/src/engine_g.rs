//! Engine G, "isolation-sim" (C19): two or three interpreter instances on ONE
//! thread (the configuration in which they share whatever is per-thread), the
//! forms of two programs with colliding names interleaved by a seeded scheduler,
//! instance creation as a schedulable event. Oracle: solo reference runs of the
//! same real code on fresh threads.

use crate::framework::*;
use crate::hashseed::{guarded, on_fresh_thread, ThreadOutcome};
use crate::observe::*;
use crate::rng::{fnv64, Rng};
use ruschm::interpreter::LibraryFactory;
use serde_json::{json, Value};
use std::cell::RefCell;
use std::collections::{BTreeMap, BTreeSet};
use std::rc::Rc;
use std::path::PathBuf;

pub struct EngineG;
pub static ENGINE_C19: EngineG = EngineG;

const SANITY: &[&str] = &[
    "(define (sq x) (* x x))",
    "(cond ((< 2 1) 'a) (else (sq 3)))",
    "(let ((x 2) (y 3)) (+ x y))",
    "(append '(1 2) '(3))",
    "(map (lambda (x) (+ x 1)) '(1 2 3))",
    "(when #t 'w)",
    "(unless #f 'u)",
    "(let* ((a 1) (b (+ a 1))) (and a (or #f b)))",
    "(case 3 ((1 2) 'low) ((3 4) 'mid) (else 'high))",
];

fn macro_forms(rng: &mut Rng, who: &str) -> Vec<(String, String)> {
    // colliding keywords on purpose; the templates differ per program
    let tag = format!("by-{}", who);
    let mut out: Vec<(String, String)> = vec![];
    let n = rng.range(1, 4);
    for _ in 0..n {
        let c = rng.upto(9);
        match c {
            0 => {
                let op = if who == "A" { "+" } else { "-" };
                out.push(("macro-def".into(), format!("(define-syntax swap-add (syntax-rules () ((swap-add a b) ({} a b))))", op)));
                out.push(("macro-use".into(), format!("(swap-add {} {})", rng.range(1, 9), rng.range(1, 9))));
            }
            1 => {
                let (a, b) = if who == "A" { ("a", "b") } else { ("b", "a") };
                out.push(("macro-def".into(), format!("(define-syntax my-if (syntax-rules () ((my-if c a b) (if c {} {}))))", a, b)));
                out.push(("macro-use".into(), "(my-if #t 1 2)".to_string()));
            }
            2 => {
                out.push(("macro-redef".into(), format!("(define-syntax when (syntax-rules () ((when c e) (if c '{} e))))", tag)));
                out.push(("macro-use".into(), "(when #t 1)".to_string()));
            }
            3 => {
                out.push(("macro-redef".into(), format!("(define-syntax unless (syntax-rules () ((unless c e) '{})))", tag)));
                out.push(("macro-use".into(), "(unless #f 2)".to_string()));
            }
            4 => {
                out.push(("macro-redef".into(), format!("(define-syntax cond (syntax-rules () ((cond x) '{})))", tag)));
                out.push(("macro-use".into(), "(cond 5)".to_string()));
            }
            5 => {
                out.push(("macro-redef".into(), format!("(define-syntax let (syntax-rules () ((let x) '{})))", tag)));
                out.push(("macro-use".into(), "(let 5)".to_string()));
            }
            6 if rng.chance(1, 3) => {
                // many failed uses of derived forms, some inside other derived forms: whatever
                // a failure leaves behind must not add up to something the neighbours feel
                for _ in 0..rng.range(20, 70) {
                    let t = *rng.pick(&[
                        "(let)",
                        "(when)",
                        "(let ((p 1)) (cond ((= p 1) (let ((q 2)) (if))) (else 0)))",
                        "(cond ((let ((a 1)) (when))))",
                        "(let* ((a 1) (b (let))) b)",
                    ]);
                    out.push(("macro-use-failing".into(), t.to_string()));
                }
            }
            6 => out.push(("macro-use".into(), "(cond (#f 1) (else 2))".to_string())),
            7 => out.push(("macro-use".into(), "(let ((x 1) (y 2)) (+ x y))".to_string())),
            _ => out.push(("macro-use".into(), "(when #t (unless #f 'both))".to_string())),
        }
    }
    out
}

fn generate_g(seed: u64, _quick: bool) -> Value {
    let mut rng = Rng::new(seed);
    let hash_seed = rng.next_u64() | 1;
    let with_macros = rng.chance(2, 3);
    let with_libs = rng.chance(1, 2);
    let with_faults = rng.chance(1, 2);
    let mut progs = serde_json::Map::new();
    let whos: Vec<&str> = if rng.chance(1, 3) { vec!["A", "B", "C"] } else { vec!["A", "B"] };
    for who in whos.iter().copied() {
        let sub = crate::engine_a::generate_a(rng.next_u64(), true, with_faults);
        let mut forms: Vec<Value> = vec![];
        let mut prefix: Vec<Value> = vec![];
        // libraries of the same name, different contents per instance
        let marker = match who {
            "A" => 1000,
            "B" => 2000,
            _ => 3000,
        };
        let reg_text = format!(
            "(define-library (iso reg) (import (scheme base) (sim nest)) (export iso-reg-value iso-reg-next! iso-reg-bumped) (begin (define n (+ {m} (sim-nested 0))) (define (iso-reg-value) {m}) (define (iso-reg-next!) (set! n (+ n 1)) n) (define-syntax iso-bump (syntax-rules () ((iso-bump x) (+ x {m})))) (define (iso-reg-bumped x) (iso-bump x))))",
            m = marker
        );
        let file_text = format!(
            "(define-library (iso file) (import (scheme base)) (export iso-file-value iso-file-bumped) (begin (define (iso-file-value) (+ {m} 7)) (define-syntax iso-bump (syntax-rules () ((iso-bump x) (- x {m})))) (define (iso-file-bumped x) (iso-bump x))))",
            m = marker
        );
        if with_libs {
            if rng.chance(2, 3) {
                prefix.push(json!({"t": "(import (iso reg))", "k": "lib-import"}));
            }
            if rng.chance(2, 3) {
                prefix.push(json!({"t": "(import (iso file))", "k": "lib-import"}));
            }
            if rng.chance(1, 3) {
                prefix.push(json!({"t": "(import (iso missing))", "k": "lib-import-failing"}));
            }
            if rng.chance(1, 3) {
                // a library that only ANOTHER instance has been given: unknown here
                let other = *rng.pick(&whos.iter().copied().filter(|w| *w != who).collect::<Vec<_>>());
                prefix.push(json!({"t": format!("(import (iso only-{}))", other.to_lowercase()), "k": "lib-import-of-a-neighbour-s-library"}));
            }
            if rng.chance(1, 3) {
                prefix.push(json!({"t": format!("(import (iso only-{}))", who.to_lowercase()), "k": "lib-import"}));
                prefix.push(json!({"t": "(iso-only-value)", "k": "lib-use"}));
            }
            if rng.chance(1, 2) {
                prefix.push(json!({"t": "(import (shared ctr))", "k": "lib-import"}));
            }
            if rng.chance(1, 2) {
                // a natively provided library of one name, different per instance
                prefix.push(json!({"t": "(import (iso nat))", "k": "lib-import"}));
            }
            if rng.chance(1, 3) {
                // a second declaration over a library already imported: the same instance of it
                prefix.push(json!({"t": "(import (prefix (iso reg) again:))", "k": "lib-import"}));
            }
        }
        for f in sub["forms"].as_array().cloned().unwrap_or_default() {
            let k = f["k"].as_str().unwrap_or("");
            let class = if k.starts_with("fault:") { "fault" } else { "store" };
            forms.push(json!({"t": f["t"], "k": class}));
        }
        if with_macros {
            for (k, t) in macro_forms(&mut rng, who) {
                let at = rng.upto(forms.len() + 1);
                forms.insert(at, json!({"t": t, "k": k}));
            }
        }
        if rng.chance(1, 3) {
            // a program that assigns or redefines names it got from the bundled libraries: that
            // is this instance's business only (every other instance keeps the originals, and
            // so do the bundled procedures written in Scheme)
            let (spoil, probe) = *rng.pick(&[
                ("(set! car cdr)", "(car '(1 2 3))"),
                ("(set! + -)", "(+ 5 3)"),
                ("(define (append . x) 'mine)", "(append '(1) '(2))"),
                ("(define (map f l) 'mine)", "(map car '((1) (2)))"),
                ("(set! vector-ref (lambda (v i) 'mine))", "(vector-ref (vector 1 2) 0)"),
                ("(set! null? pair?)", "(append '(1 2) '(3))"),
                ("(define list vector)", "(list 1 2)"),
                // variables that carry the names of derived forms
                ("(define when 5)", "(cond (#f 1) (else 2))"),
                ("(define (cond x) x)", "(let ((a 1)) (+ a 1))"),
                ("(define let 1)", "(and 1 (or #f 2))"),
                ("(define and car)", "(append '(1) '(2))"),
                // a library of this instance that works on the native layer directly and assigns there
                ("(import (iso raw))", "(raw-spoil!)"),
            ]);
            let at = rng.upto(forms.len() + 1);
            forms.insert(at, json!({"t": spoil, "k": "spoil-base"}));
            for _ in 0..rng.range(1, 2) {
                let at2 = at + 1 + rng.upto(forms.len() - at);
                forms.insert(at2, json!({"t": probe, "k": "probe-base"}));
            }
        } else if rng.chance(1, 3) {
            // ... and programs that only look at those names, while a neighbour may spoil them
            for _ in 0..rng.range(1, 3) {
                let probe = *rng.pick(&["(car '(1 2 3))", "(+ 5 3)", "(append '(1) '(2))", "(map car '((1) (2)))", "(vector-ref (vector 1 2) 0)", "(list 1 2)", "(cadr '(1 2 3))", "(list-tail '(1 2 3) 1)", "(cond (#f 1) (else 2))", "(when #t 1 2)"]);
                let at = rng.upto(forms.len() + 1);
                forms.insert(at, json!({"t": probe, "k": "probe-base"}));
            }
        }
        if with_libs {
            for _ in 0..rng.range(1, 4) {
                let at = rng.upto(forms.len() + 1);
                let t = *rng.pick(&[
                    "(iso-reg-value)",
                    "(iso-reg-next!)",
                    "(iso-file-value)",
                    "(iso-reg-bumped 1)",
                    "(iso-file-bumped 1)",
                    "(define (iso-bump x) (+ x 100))",
                    "(iso-bump 1)",
                    "(shared-next!)",
                    "(shared-next!)",
                    "iso-nat-id",
                    "(vector-ref iso-nat-box 0)",
                    "(vector-set! iso-nat-box 0 (+ 1 (vector-ref iso-nat-box 0)))",
                    "(again:iso-reg-next!)",
                    "(again:iso-reg-next!)",
                ]);
                forms.insert(at, json!({"t": t, "k": "lib-use"}));
            }
        }
        if rng.chance(1, 3) {
            // a small program file run through eval_file on this instance; often a failing one
            let at = rng.upto(forms.len() + 1);
            let text = if rng.chance(2, 3) { "(car 5)\n" } else { "(define from-file 1)\nfrom-file\n" };
            forms.insert(at, json!({"t": text, "k": "eval-file"}));
        }
        if rng.chance(1, 3) {
            // forms during whose evaluation the embedding program does something else: the
            // scheduler places forms of OTHER instances (or the creation of one) inside them
            for _ in 0..rng.range(1, 2) {
                let at = rng.upto(forms.len() + 1);
                let t = *rng.pick(&[
                    "(car (cons (sim-nested 0) '()))",
                    "((lambda (x) (+ x (sim-nested 0))) 1)",
                    "(define nested-result (sim-nested 0))",
                    "(if (= (sim-nested 0) 0) 'went 'skipped)",
                    "(vector-ref (vector 1 (sim-nested 0)) 1)",
                    // one text, several forms: the rest of the text is still to come when the
                    // other instance is entered
                    "(sim-nested 0) (+ 1 2)",
                    "(define before-nested 1) (sim-nested 0) (define after-nested 2) (+ before-nested after-nested)",
                    "(car (cons (sim-nested 0) '())) 'after-nested",
                ]);
                forms.insert(at, json!({"t": t, "k": "nest"}));
            }
        }
        // some instances have no program directory: their libraries are looked up from the
        // process's working directory (which holds libraries of its own, and which nobody moves)
        let no_program_directory = rng.chance(1, 5);
        // some instances start empty and import the standard library themselves
        let bare_start = rng.chance(1, 4);
        if bare_start {
            prefix.insert(0, json!({"t": "(import (scheme base) (scheme write))", "k": "lib-import"}));
        }
        let mut all = prefix;
        all.extend(forms);
        progs.insert(
            who.to_string(),
            json!({"forms": all, "armed": sub["armed"], "reg_text": reg_text, "file_text": file_text, "bare_start": bare_start, "no_program_directory": no_program_directory, "who": who}),
        );
    }
    // schedule: an instance is created right before its first form (A at the start); it may
    // be dropped after its last form, while the others go on
    let counts: Vec<usize> = whos.iter().map(|w| progs[*w]["forms"].as_array().unwrap().len()).collect();
    let style = rng.upto(3); // 0 uniform, 1 bursty, 2 one program after the other
    let mut sched: Vec<Value> = vec![json!({"e": "mk", "i": "A"})];
    let mut pos: Vec<usize> = vec![0; whos.len()];
    let mut made: Vec<bool> = whos.iter().map(|w| *w == "A").collect();
    let mut burst_left = 0;
    let mut burst_who = 0usize;
    let drops = rng.chance(1, 3);
    loop {
        let live: Vec<usize> = (0..whos.len()).filter(|i| pos[*i] < counts[*i]).collect();
        if live.is_empty() {
            break;
        }
        let pick = if style == 2 {
            live[0]
        } else if style == 1 {
            if burst_left == 0 || !live.contains(&burst_who) {
                burst_left = rng.range(1, 8);
                burst_who = *rng.pick(&live);
            }
            burst_left -= 1;
            burst_who
        } else {
            *rng.pick(&live)
        };
        if !made[pick] {
            sched.push(json!({"e": "mk", "i": whos[pick]}));
            made[pick] = true;
        }
        // forms inside which the embedding program gets control: the nest forms, and the first
        // import of the registered library (its body calls the host while it is being loaded)
        let next_form = &progs[whos[pick]]["forms"][pos[pick]];
        let is_nest = next_form["k"].as_str() == Some("nest")
            || (next_form["t"].as_str() == Some("(import (iso reg))") && rng.chance(1, 2));
        let mut inner: Vec<Value> = vec![];
        if is_nest {
            for _ in 0..rng.range(1, 3) {
                let others: Vec<usize> = (0..whos.len())
                    .filter(|i| {
                        *i != pick
                            && pos[*i] < counts[*i]
                            && progs[whos[*i]]["forms"][pos[*i]]["k"].as_str() != Some("nest")
                    })
                    .collect();
                if others.is_empty() || rng.chance(1, 4) {
                    inner.push(json!({"e": "new"}));
                    continue;
                }
                let o = *rng.pick(&others);
                if !made[o] {
                    inner.push(json!({"e": "mk", "i": whos[o]}));
                    made[o] = true;
                }
                inner.push(json!({"e": "f", "i": whos[o], "f": pos[o]}));
                pos[o] += 1;
            }
        }
        if inner.is_empty() {
            sched.push(json!({"e": "f", "i": whos[pick], "f": pos[pick]}));
        } else {
            sched.push(json!({"e": "f", "i": whos[pick], "f": pos[pick], "inner": inner}));
        }
        pos[pick] += 1;
        if drops && pos[pick] == counts[pick] && rng.chance(1, 2) {
            sched.push(json!({"e": "drop", "i": whos[pick]}));
        }
    }
    // further instance creations at random points
    for _ in 0..rng.range(0, 3) {
        let at = 1 + rng.upto(sched.len());
        sched.insert(at, json!({"e": "new"}));
    }
    json!({
        "seed": seed,
        "hash_seed": hash_seed,
        "progs": progs,
        "schedule": sched,
    })
}

struct Inst {
    sys: RealSys,
    dir: PathBuf,
}

/// evaluate one scheduled form through its instance: text through `eval`, or a small
/// program file through `eval_file`
fn eval_form(inst: &mut Inst, form: &Value, index: usize) -> String {
    let t = form["t"].as_str().unwrap_or("");
    if form["k"].as_str() == Some("eval-file") {
        let path = inst.dir.join(format!("prog-{}.scm", index));
        let _ = std::fs::create_dir_all(&inst.dir);
        let _ = std::fs::write(&path, t);
        let it = &mut inst.sys.it;
        match guarded(|| it.eval_file(path)) {
            Ok(Ok(v)) => outcome_text(&Outcome::Value(v.as_ref().map(obs_of_value))),
            Ok(Err(e)) => outcome_text(&Outcome::Error(kind_of_error(&e))),
            Err(p) => outcome_text(&Outcome::Panic(p)),
        }
    } else {
        outcome_text(&inst.sys.eval_text(t))
    }
}

fn nested_procedure() -> ruschm::values::Value<f32> {
    ruschm::values::Value::Procedure(ruschm::values::Procedure::new_builtin_impure(
        "sim-nested".to_string(),
        ruschm::param_fixed!["k"],
        move |_args, _env| {
            let hook = NEST_HOOK.with(|h| h.borrow().clone());
            if let Some(f) = hook {
                f();
            }
            Ok(ruschm::values::Value::Number(ruschm::values::Number::Integer(0)))
        },
    ))
}

fn make_instance(prog: &Value, dir: &PathBuf) -> Result<Inst, crate::hashseed::PanicRecord> {
    let mut sys = RealSys::new(!prog["bare_start"].as_bool().unwrap_or(false))?;
    sys.define_host();
    if let Some(a) = prog["armed"].as_object() {
        for (k, v) in a {
            sys.host.borrow_mut().armed.insert(k.parse().unwrap_or(0), v.as_u64().unwrap_or(0));
        }
    }
    // a host procedure through which the embedding program does other things in the middle
    // of an evaluation: here, whatever the schedule placed inside the calling form
    sys.it.env.define("sim-nested".to_string(), nested_procedure());
    sys.it.register_library_factory(LibraryFactory::Native(
        library_name_of(&["sim", "nest"]),
        Box::new(|| vec![("sim-nested".to_string(), nested_procedure())]),
    ));
    if !prog["no_program_directory"].as_bool().unwrap_or(false) {
        sys.it.program_directory = Some(dir.clone());
    }
    // a natively provided library: every instance is given one of the same name and its own values
    {
        let marker = match prog["who"].as_str() {
            Some("A") => 1000,
            Some("B") => 2000,
            _ => 3000,
        };
        sys.it.register_library_factory(LibraryFactory::Native(
            library_name_of(&["iso", "nat"]),
            Box::new(move || {
                vec![
                    ("iso-nat-id".to_string(), ruschm::values::Value::Number(ruschm::values::Number::Integer(marker))),
                    (
                        "iso-nat-box".to_string(),
                        ruschm::values::Value::Vector(ruschm::values::ValueReference::new_mutable(vec![ruschm::values::Value::Number(
                            ruschm::values::Number::Integer(marker + 1),
                        )])),
                    ),
                ]
            }),
        ));
    }
    // a library that imports the native layer itself and assigns one of its names (an
    // implementation may refuse it; whatever it does stays inside this instance)
    {
        let text = "(define-library (iso raw) (import (ruschm base)) (export raw-spoil! raw-car) (begin (define (raw-spoil!) (set! car cdr) 0) (define (raw-car l) (car l))))";
        let lname = library_name_of(&["iso", "raw"]);
        let it = &mut sys.it;
        let _ = guarded(|| {
            if let Ok(f) = LibraryFactory::from_char_stream(&lname, text.chars()) {
                it.register_library_factory(f);
            }
        })?;
    }
    // a library registered with this instance alone, under a name of its own
    if let Some(w) = prog["who"].as_str() {
        let only_name = format!("only-{}", w.to_lowercase());
        let text = format!(
            "(define-library (iso {n}) (import (scheme base)) (export iso-only-value) (begin (define (iso-only-value) '{n})))",
            n = only_name
        );
        let lname = library_name_of(&["iso", &only_name]);
        let it = &mut sys.it;
        let _ = guarded(|| {
            if let Ok(f) = LibraryFactory::from_char_stream(&lname, text.chars()) {
                it.register_library_factory(f);
            }
        })?;
    }
    let reg = prog["reg_text"].as_str().unwrap_or("").to_string();
    let name = library_name_of(&["iso", "reg"]);
    let it = &mut sys.it;
    let r = guarded(|| match LibraryFactory::from_char_stream(&name, reg.chars()) {
        Ok(f) => {
            it.register_library_factory(f);
            true
        }
        Err(_) => false,
    })?;
    let _ = r;
    Ok(Inst { sys, dir: dir.clone() })
}

fn outcome_text(o: &Outcome) -> String {
    o.short()
}

/// run the scheduled forms of one program alone, on the current (fresh) thread
fn solo(prog: &Value, dir: &PathBuf, indices: &[usize]) -> Vec<String> {
    let mut out = vec![];
    let mut inst = match make_instance(prog, dir) {
        Ok(i) => i,
        Err(p) => return vec![format!("CREATE-PANIC {}", p.signature())],
    };
    let forms = prog["forms"].as_array().cloned().unwrap_or_default();
    ruschm::verif_hooks::set_budget(3_000_000, 20_000);
    for i in indices {
        out.push(eval_form(&mut inst, &forms[*i], *i));
    }
    out
}

fn sanity_run() -> Vec<String> {
    let mut out = vec![];
    match RealSys::new(true) {
        Ok(mut s) => {
            for t in SANITY {
                out.push(outcome_text(&s.eval_text(t)));
            }
        }
        Err(p) => out.push(format!("CREATE-PANIC {}", p.signature())),
    }
    out
}

fn write_file_lib(dir: &PathBuf, text: &str) {
    let d = dir.join("iso");
    let _ = std::fs::create_dir_all(&d);
    std::fs::write(d.join("file.sld"), text).expect("write iso/file.sld");
}

thread_local! {
    /// set by the interleaved run only: solo reference runs leave `(sim-nested k)` without effect
    static NEST_HOOK: RefCell<Option<Rc<dyn Fn()>>> = const { RefCell::new(None) };
}

/// the state of one interleaved run, shared between the scheduler loop and the nesting hook
#[derive(Default)]
struct Ctx {
    progs: Value,
    dirs: BTreeMap<String, PathBuf>,
    solo: BTreeMap<String, Vec<String>>,
    sanity: Vec<String>,
    insts: BTreeMap<String, Rc<RefCell<Inst>>>,
    pos: BTreeMap<String, usize>,
    log: Vec<String>,
    violation: Option<Violation>,
    counters: BTreeMap<String, u64>,
    evaluated_before: u64,
    last_b_seen: bool,
    a_between_b: bool,
    a_since_b: bool,
    step: usize,
    depth: usize,
    /// events to run when the form under evaluation calls `(sim-nested k)`
    pending_inner: Vec<Value>,
}

impl Ctx {
    fn bump(&mut self, k: &str) {
        *self.counters.entry(k.to_string()).or_insert(0) += 1;
    }
}

/// one scheduled event; never holds a borrow of the context while real code runs
fn run_event(ctx: &Rc<RefCell<Ctx>>, ev: &Value) {
    let (step, depth) = {
        let c = ctx.borrow();
        (c.step, c.depth)
    };
    let ind = if depth > 0 { "    (nested) " } else { "" };
    match ev["e"].as_str() {
        Some("mk") => {
            let w = ev["i"].as_str().unwrap_or("").to_string();
            let (prog, dir) = {
                let c = ctx.borrow();
                (c.progs[&w].clone(), c.dirs[&w].clone())
            };
            let made = make_instance(&prog, &dir);
            let mut c = ctx.borrow_mut();
            let before = c.evaluated_before;
            match made {
                Ok(i) => {
                    c.insts.insert(w.clone(), Rc::new(RefCell::new(i)));
                    c.log.push(format!("{:>3} {}create instance {} (after {} forms on this thread)", step, ind, w, before));
                    if before > 0 {
                        c.bump("probe.instance_created_after_history");
                    }
                    if depth > 0 {
                        c.bump("probe.instance_created_inside_an_evaluation");
                    }
                }
                Err(p) => {
                    c.log.push(format!("{:>3} {}create instance {} => PANIC {}", step, ind, w, p.signature()));
                    c.violation = Some(Violation {
                        signature: "C19/instance-creation-panics".into(),
                        detail: json!({"step": step, "instance": w, "panic": p.message, "at": format!("{}:{}", p.file, p.line), "forms_evaluated_before": before, "inside_an_evaluation": depth > 0}),
                    });
                }
            }
        }
        Some("drop") => {
            let w = ev["i"].as_str().unwrap_or("").to_string();
            let gone = ctx.borrow_mut().insts.remove(&w);
            drop(gone);
            let mut c = ctx.borrow_mut();
            c.log.push(format!("{:>3} {}drop instance {}", step, ind, w));
            c.bump("event.instance_dropped");
        }
        Some("new") => {
            let got = sanity_run();
            let mut c = ctx.borrow_mut();
            c.log.push(format!("{:>3} {}create a further instance, sanity program => {:?}", step, ind, got));
            c.bump("event.further_instance");
            if depth > 0 {
                c.bump("probe.instance_created_inside_an_evaluation");
            }
            if got != c.sanity {
                let sig = if got.first().map(|s| s.starts_with("CREATE-PANIC")).unwrap_or(false) {
                    "C19/instance-creation-panics".to_string()
                } else {
                    "C19/new-instance-differs".to_string()
                };
                c.violation = Some(Violation {
                    signature: sig,
                    detail: json!({"step": step, "expected": c.sanity, "observed": got, "forms_evaluated_before": c.evaluated_before, "inside_an_evaluation": depth > 0}),
                });
            }
        }
        Some("f") => {
            let w = ev["i"].as_str().unwrap_or("").to_string();
            let f = ev["f"].as_u64().unwrap_or(0) as usize;
            let (form, inst) = {
                let mut c = ctx.borrow_mut();
                c.pending_inner = ev["inner"].as_array().cloned().unwrap_or_default();
                (c.progs[&w]["forms"][f].clone(), c.insts.get(&w).cloned())
            };
            let Some(inst) = inst else { return };
            let t = form["t"].as_str().unwrap_or("").to_string();
            let k = form["k"].as_str().unwrap_or("").to_string();
            // an instance that is in the middle of an evaluation is never entered again
            let got = match inst.try_borrow_mut() {
                Ok(mut i) => eval_form(&mut i, &form, f),
                Err(_) => {
                    ctx.borrow_mut().violation = Some(Violation {
                        signature: "C19/harness/instance-entered-twice".into(),
                        detail: json!({"step": step, "instance": w}),
                    });
                    return;
                }
            };
            let mut c = ctx.borrow_mut();
            let unused = std::mem::take(&mut c.pending_inner);
            c.evaluated_before += 1;
            let p = *c.pos.entry(w.clone()).or_insert(0);
            let expected = c.solo[&w].get(p).cloned().unwrap_or_default();
            c.pos.insert(w.clone(), p + 1);
            c.log.push(format!("{:>3} {}{} [{}] {} => {} | alone {}", step, ind, w, k, t, got, expected));
            if depth > 0 {
                c.bump("probe.form_evaluated_inside_another_instance_s_evaluation");
            }
            if !unused.is_empty() && got == expected {
                // the form did not reach its (sim-nested k): the placed events were not run
                c.bump("probe.nested_events_not_reached");
            }
            if w == "B" {
                if c.last_b_seen && c.a_since_b {
                    c.a_between_b = true;
                }
                c.last_b_seen = true;
                c.a_since_b = false;
            } else {
                c.a_since_b = true;
            }
            if got != expected {
                let class = if k.starts_with("macro") {
                    "macro"
                } else if k.starts_with("lib") {
                    "library"
                } else if k.ends_with("-base") {
                    "bundled-names"
                } else {
                    "store"
                };
                let sig = if got.starts_with("PANIC") {
                    format!("C19/panic-only-when-interleaved/{}", class)
                } else {
                    format!("C19/result-differs/{}", class)
                };
                c.violation = Some(Violation {
                    signature: sig,
                    detail: json!({"step": step, "instance": w, "form": t, "alone": expected, "interleaved": got, "inside_an_evaluation": depth > 0}),
                });
            }
        }
        _ => {}
    }
}

fn execute_g(case: &Value) -> RunResult {
    let mut res = RunResult::default();
    let hash_seed = case["hash_seed"].as_u64().unwrap_or(1);
    let sched: Vec<Value> = case["schedule"].as_array().cloned().unwrap_or_default();
    let progs = case["progs"].clone();
    res.log.push(format!("seed={} hash_seed={}", case["seed"], hash_seed));
    // validity of the schedule: an instance is made before its forms, indices ascend
    let mut made: BTreeSet<String> = BTreeSet::new();
    let mut idx: BTreeMap<String, Vec<usize>> = BTreeMap::new();
    // events in the order in which they take effect; the events placed inside a form come
    // right after the event of that form (they are over before that form's result exists,
    // and they never concern the instance that is evaluating)
    let mut flat: Vec<Value> = vec![];
    for ev in &sched {
        flat.push(ev.clone());
        if let Some(inner) = ev["inner"].as_array() {
            for iv in inner {
                if iv["inner"].is_array() || (iv["i"].is_string() && iv["i"] == ev["i"]) || iv["e"].as_str() == Some("drop") {
                    res.invalid = Some("events inside a form: one level, other instances only, no drops".into());
                    return res;
                }
                flat.push(iv.clone());
            }
        }
    }
    for ev in &flat {
        match ev["e"].as_str() {
            Some("mk") => {
                made.insert(ev["i"].as_str().unwrap_or("").to_string());
            }
            Some("drop") => {
                made.remove(ev["i"].as_str().unwrap_or(""));
            }
            Some("f") => {
                let who = ev["i"].as_str().unwrap_or("").to_string();
                if !made.contains(&who) {
                    res.invalid = Some("form for an instance that does not exist (yet, or any more)".into());
                    return res;
                }
                let f = ev["f"].as_u64().unwrap_or(0) as usize;
                let n = progs[&who]["forms"].as_array().map(|a| a.len()).unwrap_or(0);
                let v = idx.entry(who).or_default();
                if f >= n || v.last().map(|l| *l >= f).unwrap_or(false) {
                    res.invalid = Some("form indices must ascend".into());
                    return res;
                }
                v.push(f);
            }
            _ => {}
        }
    }
    let root = crate::sandbox::fresh_dir("iso");
    let whos: Vec<String> = progs.as_object().map(|o| o.keys().cloned().collect()).unwrap_or_default();
    let dirs: BTreeMap<String, PathBuf> = whos.iter().map(|w| (w.to_string(), root.join(w))).collect();
    // one library FILE that every instance reaches through its own program directory (a
    // symlinked sub-directory): the same file, but an instance of its own per interpreter
    let shared = root.join("shared-src");
    let _ = std::fs::create_dir_all(&shared);
    let _ = std::fs::write(
        shared.join("ctr.sld"),
        "(define-library (shared ctr) (import (scheme base)) (export shared-next!) (begin (define n 0) (define (shared-next!) (set! n (+ n 1)) n)))\n",
    );
    for w in &whos {
        write_file_lib(&dirs[w], progs[w]["file_text"].as_str().unwrap_or(""));
        let _ = std::os::unix::fs::symlink(&shared, dirs[w].join("shared"));
    }
    // the working directory of every run of this case: its own (iso file), its own way to
    // the shared library. Each run starts here (the directory is the process's, so a run
    // that moved it must not leave the next one elsewhere)
    let cwd_dir = root.join("cwd");
    write_file_lib(
        &cwd_dir,
        "(define-library (iso file) (import (scheme base)) (export iso-file-value iso-file-bumped) (begin (define (iso-file-value) 9007) (define (iso-file-bumped x) (+ x 9000))))",
    );
    let _ = std::os::unix::fs::symlink(&shared, cwd_dir.join("shared"));
    // solo reference runs, each on its own fresh thread
    let mut solo_results: BTreeMap<String, Vec<String>> = BTreeMap::new();
    for w in &whos {
        let p = progs[w].clone();
        let d = dirs[w].clone();
        let ix = idx.get(w).cloned().unwrap_or_default();
        let c = cwd_dir.clone();
        let r = match on_fresh_thread(hash_seed, move || {
            let _ = std::env::set_current_dir(&c);
            solo(&p, &d, &ix)
        }) {
            ThreadOutcome::Done(r) => r,
            ThreadOutcome::Panicked(p) => vec![format!("HARNESS-PANIC {}", p.message)],
        };
        solo_results.insert(w.to_string(), r);
    }
    let _ = std::env::set_current_dir(&cwd_dir);
    let sanity_ref = match on_fresh_thread(hash_seed, sanity_run) {
        ThreadOutcome::Done(r) => r,
        ThreadOutcome::Panicked(p) => vec![format!("HARNESS-PANIC {}", p.message)],
    };
    for (w, r) in &solo_results {
        if r.first().map(|s| s.starts_with("CREATE-PANIC") || s.starts_with("HARNESS-PANIC")).unwrap_or(false) {
            res.violation = Some(Violation {
                signature: format!("C19/solo-instance-creation-fails/{}", r[0]),
                detail: json!({"program": w, "observed": r[0]}),
            });
            let _ = std::env::set_current_dir("/");
            crate::sandbox::remove_dir(&root);
            return res;
        }
    }
    // the interleaved run: all instances on one thread
    let sched2 = sched.clone();
    let inter = on_fresh_thread(hash_seed, {
        let progs2 = progs.clone();
        let dirs2 = dirs.clone();
        let solo2 = solo_results.clone();
        let sanity2 = sanity_ref.clone();
        let cwd2 = cwd_dir.clone();
        move || {
            let _ = std::env::set_current_dir(&cwd2);
            // every program may use what it may use alone (plus the sanity programs): the
            // budget must never be what makes an interleaved run differ
            let nprogs = progs2.as_object().map(|o| o.len()).unwrap_or(2) as u64;
            ruschm::verif_hooks::set_budget(3_000_000 * nprogs + 2_000_000, 20_000);
            let steps0 = ruschm::verif_hooks::steps();
            let ctx = Rc::new(RefCell::new(Ctx {
                progs: progs2,
                dirs: dirs2,
                solo: solo2,
                sanity: sanity2,
                ..Default::default()
            }));
            // what `(sim-nested k)` does on this thread: the events that the schedule placed
            // inside the form being evaluated
            let hook_ctx = ctx.clone();
            NEST_HOOK.with(|h| {
                *h.borrow_mut() = Some(Rc::new(move || {
                    let inner: Vec<Value> = std::mem::take(&mut hook_ctx.borrow_mut().pending_inner);
                    for ev in &inner {
                        if hook_ctx.borrow().violation.is_some() {
                            break;
                        }
                        hook_ctx.borrow_mut().depth += 1;
                        run_event(&hook_ctx, ev);
                        hook_ctx.borrow_mut().depth -= 1;
                    }
                }))
            });
            for (step, ev) in sched2.iter().enumerate() {
                ctx.borrow_mut().step = step;
                run_event(&ctx, ev);
                if ctx.borrow().violation.is_some() {
                    break;
                }
            }
            NEST_HOOK.with(|h| *h.borrow_mut() = None);
            let steps = ruschm::verif_hooks::steps() - steps0;
            let mut c = ctx.borrow_mut();
            c.insts.clear();
            (std::mem::take(&mut c.log), c.violation.take(), std::mem::take(&mut c.counters), steps, c.a_between_b)
        }
    });
    let _ = std::env::set_current_dir("/");
    crate::sandbox::remove_dir(&root);
    match inter {
        ThreadOutcome::Done((log, violation, counters, steps, a_between_b)) => {
            res.log.extend(log);
            res.violation = violation;
            for (k, v) in counters {
                res.add(&k, v);
            }
            res.steps = steps + sched.len() as u64;
            // non-trivial: common names touched and A ran between two forms of B
            let names = |w: &str| -> BTreeSet<String> {
                let mut s = BTreeSet::new();
                for i in idx.get(w).cloned().unwrap_or_default() {
                    let t = progs[w]["forms"][i]["t"].as_str().unwrap_or("").to_string();
                    for tok in t.split(|c: char| c == '(' || c == ')' || c.is_whitespace()) {
                        if tok.len() > 1 && !tok.chars().all(|c| c.is_ascii_digit() || c == '-') {
                            s.insert(tok.to_string());
                        }
                    }
                }
                s
            };
            let mut all_common: BTreeSet<String> = names("A").intersection(&names("B")).cloned().collect();
            if whos.len() > 2 {
                all_common.extend(names("A").intersection(&names("C")).cloned());
            }
            let common: Vec<String> = all_common.iter().filter(|n| {
                !matches!(n.as_str(), "define" | "lambda" | "set!" | "if" | "quote" | "cons" | "car" | "cdr" | "vector" | "import")
            }).cloned().collect();
            res.nontrivial = !common.is_empty() && a_between_b;
        }
        ThreadOutcome::Panicked(p) => {
            res.invalid = Some(format!("harness panic {} at {}:{}", p.message, p.file, p.line));
        }
    }
    let pattern: String = flat
        .iter()
        .map(|e| match e["e"].as_str() {
            Some("f") if e["inner"].is_array() => format!("{}nest[{}]", e["i"].as_str().unwrap_or(""), e["inner"].as_array().map(|a| a.len()).unwrap_or(0)),
            Some("f") => format!(
                "{}{}",
                e["i"].as_str().unwrap_or(""),
                progs[e["i"].as_str().unwrap_or("A")]["forms"][e["f"].as_u64().unwrap_or(0) as usize]["k"].as_str().unwrap_or("")
            ),
            Some("mk") => format!("mk{}", e["i"].as_str().unwrap_or("")),
            _ => "new".to_string(),
        })
        .collect::<Vec<_>>()
        .join(",");
    res.sched_hash = fnv64(pattern.as_bytes());
    res.state_hashes.push(fnv64(format!("{:?}", solo_results).as_bytes()));
    for w in &whos {
        for i in idx.get(w).cloned().unwrap_or_default() {
            let k = progs[w]["forms"][i]["k"].as_str().unwrap_or("").to_string();
            if k.starts_with("macro") || k.starts_with("lib") || k == "fault" {
                res.count(&format!("forms.{}", k));
            }
        }
    }
    res
}

impl Engine for EngineG {
    fn property(&self) -> &'static str {
        "C19"
    }
    fn engine_name(&self) -> &'static str {
        "isolation-sim"
    }
    fn level(&self) -> &'static str {
        "exploration"
    }
    fn runs(&self, quick: bool) -> u64 {
        if quick { 8_000 } else { 400_000 }
    }
    fn generate(&self, seed: u64, quick: bool) -> Value {
        generate_g(seed, quick)
    }
    fn execute(&self, case: &Value) -> RunResult {
        execute_g(case)
    }
    fn shrink(&self, case: &Value) -> Vec<Value> {
        let mut out = vec![];
        let sched = case["schedule"].as_array().cloned().unwrap_or_default();
        // drop whole programs' tails, chunks, then single events (never a needed "mk")
        let n = sched.len();
        let mut chunk = n / 2;
        while chunk >= 2 {
            let mut start = 0;
            while start < n {
                let end = (start + chunk).min(n);
                let mut v: Vec<Value> = sched[..start].to_vec();
                v.extend(sched[start..end].iter().filter(|e| e["e"].as_str() == Some("mk")).cloned());
                v.extend_from_slice(&sched[end..]);
                out.push(with_field(case, "schedule", json!(v)));
                start = end;
            }
            chunk /= 2;
        }
        for i in (0..n).rev() {
            if sched[i]["e"].as_str() != Some("mk") {
                out.push(with_field(case, "schedule", json!(without_index(&sched, i))));
            } else {
                // an instance nobody uses can go
                let w = sched[i]["i"].as_str().unwrap_or("");
                if !sched.iter().any(|e| e["e"].as_str() == Some("f") && e["i"].as_str() == Some(w)) {
                    out.push(with_field(case, "schedule", json!(without_index(&sched, i))));
                }
            }
        }
        if case["hash_seed"].as_u64() != Some(1) {
            out.push(with_field(case, "hash_seed", json!(1)));
        }
        out
    }
    fn rule(&self) -> String {
        "seeded pairs of programs A and B with colliding names on purpose (engine A's store operations and fault transactions over the same global, procedure and vector names; define-syntax of the same fresh keywords with different templates and redefinitions of when/unless/cond/let; libraries of one name with different contents per instance, registered and as files under different program directories; failing imports), their forms interleaved over two instances on one thread by a seeded scheduler (uniform, bursty, A completely first), instance B created at its first use, 0-3 further instances created at random points and given a fixed sanity program; optionally a third program, instances dropped after their last form, small program files through eval_file, one library file shared through symlinks, instances that start empty, programs that assign or redefine bundled names, and NESTED events: forms of other instances or the creation of an instance placed inside the evaluation of a form that calls the host procedure sim-nested (plain expressions, texts with further forms to come, the first import of a library whose body calls the host). Oracle: the same scheduled forms of each program run alone on a fresh thread (solo reference on real code); sanity program vs a fresh-thread instance. distinct = hash of the interleaving pattern x op kinds; non-trivial = both programs touch a common name and a form of A runs between two forms of B".into()
    }
    fn assumptions(&self) -> Vec<String> {
        vec![
            "results are compared structurally (values) and by error kind; the solo run of the same build is the reference, so defects of evaluation itself cannot raise an alarm here".into(),
            "instances on different threads share nothing at all; only the one-thread configuration is explored".into(),
        ]
    }
    fn components(&self) -> Value {
        json!({
            "real": ["everything in-process: lexer, parser, per-thread syntax table, expander, evaluator, loader, environment"],
            "stub": ["(sim host) procedures", "entropy for HashMap keys", "evaluation budget hook", "library contents"],
            "model": ["none: solo reference runs of the real code"]
        })
    }
}
