//! Executable reference model: a tiny store-passing interpreter for the core
//! forms (define, lambda, set!, if, quote, application), vectors with identity and
//! a mutability flag, closures over cells, the host procedures of the simulator,
//! and a module system (one instance per library per machine, export maps,
//! import-set algebra). Written independently of Ruschm; never calls into it.

use crate::sexp::Sx;
use std::cell::RefCell;
use std::collections::BTreeMap;
use std::rc::Rc;

pub type VecId = usize;
pub type FrameRef = Rc<Frame>;

pub struct Frame {
    pub parent: Option<FrameRef>,
    pub vars: RefCell<BTreeMap<String, RV>>,
}

impl Frame {
    pub fn new_root() -> FrameRef {
        Rc::new(Frame {
            parent: None,
            vars: RefCell::new(BTreeMap::new()),
        })
    }
    pub fn child(parent: &FrameRef) -> FrameRef {
        Rc::new(Frame {
            parent: Some(parent.clone()),
            vars: RefCell::new(BTreeMap::new()),
        })
    }
    pub fn lookup(&self, name: &str) -> Option<RV> {
        if let Some(v) = self.vars.borrow().get(name) {
            return Some(v.clone());
        }
        match &self.parent {
            Some(p) => p.lookup(name),
            None => None,
        }
    }
    pub fn define(&self, name: &str, v: RV) {
        self.vars.borrow_mut().insert(name.to_string(), v);
    }
    pub fn assign(&self, name: &str, v: RV) -> bool {
        if let Some(slot) = self.vars.borrow_mut().get_mut(name) {
            *slot = v;
            return true;
        }
        match &self.parent {
            Some(p) => p.assign(name, v),
            None => false,
        }
    }
}

pub struct Closure {
    pub id: usize,
    pub params: Vec<String>,
    pub rest: Option<String>,
    pub body: Vec<Sx>,
    pub env: FrameRef,
}

#[derive(Clone)]
pub enum RV {
    Int(i64),
    Bool(bool),
    Char(char),
    Str(String),
    Sym(String),
    Nil,
    Pair(Rc<(RV, RV)>),
    Vector(VecId),
    Closure(Rc<Closure>),
    Builtin(String),
    Host(String),
    /// a syntax-rules macro of the simplest shape: (K p ...) -> template, pattern variables only
    Macro(Rc<MacroDef>),
    Unspec,
}

pub struct MacroDef {
    pub keyword: String,
    pub rules: Vec<(Vec<String>, Sx)>,
}

pub struct VecObj {
    pub mutable: bool,
    pub items: Vec<RV>,
}

#[derive(Clone, Debug, PartialEq, Eq, PartialOrd, Ord)]
pub enum RErr {
    Unbound(String),
    NotProc,
    Arity,
    Type,
    Index,
    Immutable,
    DivZero,
    NegLen,
    LibCyclic(String),
    LibNotFound(String),
    /// the library is present but cannot be loaded (syntax, io): class only
    LibBroken(String),
    Syntax,
    /// import after the import phase ended
    LateImport,
    /// reference model ran out of fuel: the case is not a valid schedule
    Budget,
    /// the reference model does not cover this construct: generator/minimiser must avoid it
    Unsupported(String),
}

#[derive(Clone, Debug, Default, PartialEq, Eq)]
pub struct HostState {
    /// site -> occurrence (1-based) at which `sim-flip` answers #t
    pub armed: BTreeMap<i64, u64>,
    pub counts: BTreeMap<i64, u64>,
    pub trace: Vec<i64>,
}

impl HostState {
    pub fn flip(&mut self, site: i64) -> bool {
        let c = self.counts.entry(site).or_insert(0);
        *c += 1;
        self.armed.get(&site) == Some(c)
    }
    pub fn note(&mut self, k: i64) {
        self.trace.push(k);
    }
}

/// one library as the reference module system sees it
#[derive(Clone, Debug)]
pub enum LibEntry {
    /// `(define-library NAME decl ...)`
    Def(Sx),
    /// natively provided: name -> value constructor
    Native(Vec<(String, NativeVal)>),
    /// present but unloadable
    Broken,
}

#[derive(Clone, Debug)]
pub enum NativeVal {
    /// a fresh mutable vector per instantiation of the library
    IntVector(Vec<i64>),
    Int(i64),
    Sym(String),
    Builtin(String),
    Host(String),
}

pub struct Machine {
    pub root: FrameRef,
    pub vectors: Vec<VecObj>,
    pub host: HostState,
    pub fuel: u64,
    pub depth: u32,
    pub max_depth: u32,
    pub steps: u64,
    pub world: BTreeMap<String, LibEntry>,
    pub instances: BTreeMap<String, BTreeMap<String, RV>>,
    pub loading: Vec<String>,
    pub import_phase: bool,
    next_closure: usize,
    /// count of library instantiations, for probes
    pub instantiations: u64,
}

pub const BUILTINS: &[(&str, usize, bool)] = &[
    ("apply", 1, true),
    ("car", 1, false),
    ("cdr", 1, false),
    ("cons", 2, false),
    ("eq?", 2, false),
    ("eqv?", 2, false),
    ("pair?", 1, false),
    ("null?", 1, false),
    ("not", 1, false),
    ("+", 0, true),
    ("-", 1, true),
    ("*", 0, true),
    ("/", 1, true),
    ("=", 0, true),
    ("<", 0, true),
    (">", 0, true),
    ("<=", 0, true),
    (">=", 0, true),
    ("vector", 0, true),
    ("make-vector", 2, false),
    ("vector-ref", 2, false),
    ("vector-set!", 3, false),
    ("vector-length", 1, false),
    ("vector?", 1, false),
    ("procedure?", 1, false),
    ("number?", 1, false),
    ("boolean?", 1, false),
    ("symbol?", 1, false),
    ("string?", 1, false),
    ("char?", 1, false),
    ("list", 0, true),
    ("for-each", 2, false),
    ("fold-left", 3, false),
    ("fold-right", 3, false),
    ("cadr", 1, false),
    ("cddr", 1, false),
    ("list-ref", 2, false),
    ("floor-quotient", 2, false),
    ("floor-remainder", 2, false),
    ("map", 2, false),
    ("abs", 1, false),
    ("floor", 1, false),
    ("ceiling", 1, false),
    ("max", 1, true),
    ("min", 1, true),
];

fn builtin_arity(name: &str) -> Option<(usize, bool)> {
    BUILTINS
        .iter()
        .find(|(n, _, _)| *n == name)
        .map(|(_, f, v)| (*f, *v))
}

pub fn lib_key(name: &Sx) -> String {
    name.to_text()
}

impl Machine {
    pub fn new_empty() -> Machine {
        Machine {
            root: Frame::new_root(),
            vectors: vec![],
            host: HostState::default(),
            fuel: 200_000,
            depth: 0,
            max_depth: 2_000,
            steps: 0,
            world: BTreeMap::new(),
            instances: BTreeMap::new(),
            loading: vec![],
            import_phase: true,
            next_closure: 0,
            instantiations: 0,
        }
    }
    /// root frame holds the modelled part of (scheme base); imports are still allowed
    pub fn new_with_base() -> Machine {
        let m = Machine::new_empty();
        for (n, _, _) in BUILTINS {
            m.root.define(n, RV::Builtin(n.to_string()));
        }
        m
    }
    pub fn define_host(&self) {
        self.root.define("sim-flip", RV::Host("sim-flip".into()));
        self.root.define("sim-note", RV::Host("sim-note".into()));
    }

    pub fn new_vector(&mut self, items: Vec<RV>, mutable: bool) -> RV {
        self.vectors.push(VecObj { mutable, items });
        RV::Vector(self.vectors.len() - 1)
    }

    fn tick(&mut self) -> Result<(), RErr> {
        self.steps += 1;
        if self.fuel == 0 {
            return Err(RErr::Budget);
        }
        self.fuel -= 1;
        Ok(())
    }

    pub fn datum(&mut self, d: &Sx) -> RV {
        match d {
            Sx::Int(i) => RV::Int(*i),
            Sx::Bool(b) => RV::Bool(*b),
            Sx::Char(c) => RV::Char(*c),
            Sx::Str(s) => RV::Str(s.clone()),
            Sx::Sym(s) => RV::Sym(s.clone()),
            Sx::List(v) => {
                let mut acc = RV::Nil;
                for x in v.iter().rev() {
                    let car = self.datum(x);
                    acc = RV::Pair(Rc::new((car, acc)));
                }
                acc
            }
            Sx::Dotted(v, t) => {
                let mut acc = self.datum(t);
                for x in v.iter().rev() {
                    let car = self.datum(x);
                    acc = RV::Pair(Rc::new((car, acc)));
                }
                acc
            }
            Sx::Vector(v) => {
                let items = v.iter().map(|x| self.datum(x)).collect();
                self.new_vector(items, false)
            }
        }
    }

    /// evaluate one top-level form on the root frame
    pub fn eval_top(&mut self, form: &Sx) -> Result<RV, RErr> {
        self.depth = 0;
        if form.head_sym() == Some("import") {
            if !self.import_phase {
                return Err(RErr::LateImport);
            }
            let sets = match form {
                Sx::List(v) => v[1..].to_vec(),
                _ => unreachable!(),
            };
            let root = self.root.clone();
            self.eval_import(&sets, &root)?;
            return Ok(RV::Unspec);
        }
        if form.head_sym() == Some("define-library") {
            return Err(RErr::Syntax);
        }
        self.import_phase = false;
        let root = self.root.clone();
        self.eval_body_form(form, &root)
    }

    /// a form that may be a definition (top level, library body, procedure body)
    fn eval_body_form(&mut self, form: &Sx, env: &FrameRef) -> Result<RV, RErr> {
        if form.head_sym() == Some("define-syntax") {
            // (define-syntax K (syntax-rules () ((K p ...) template) ...)), pattern variables only
            let v = match form {
                Sx::List(v) if v.len() == 3 => v,
                _ => return Err(RErr::Syntax),
            };
            let keyword = v[1].as_sym().ok_or(RErr::Syntax)?.to_string();
            let sr = match &v[2] {
                Sx::List(sr) if sr.len() >= 2 && sr[0].as_sym() == Some("syntax-rules") => sr,
                _ => return Err(RErr::Unsupported("define-syntax without syntax-rules".into())),
            };
            if !matches!(&sr[1], Sx::List(l) if l.is_empty()) {
                return Err(RErr::Unsupported("syntax-rules literals".into()));
            }
            let mut rules = vec![];
            for r in &sr[2..] {
                let (pat, tmpl) = match r {
                    Sx::List(r) if r.len() == 2 => (&r[0], &r[1]),
                    _ => return Err(RErr::Syntax),
                };
                let pv = match pat {
                    Sx::List(p) if !p.is_empty() && p[0].as_sym() == Some(keyword.as_str()) => p,
                    _ => return Err(RErr::Unsupported("pattern shape".into())),
                };
                let mut params = vec![];
                for x in &pv[1..] {
                    match x.as_sym() {
                        Some("...") | Some("_") | None => return Err(RErr::Unsupported("pattern element".into())),
                        Some(p) => params.push(p.to_string()),
                    }
                }
                rules.push((params, tmpl.clone()));
            }
            env.define(&keyword, RV::Macro(Rc::new(MacroDef { keyword: keyword.clone(), rules })));
            return Ok(RV::Unspec);
        }
        if form.head_sym() == Some("define") {
            let v = match form {
                Sx::List(v) => v,
                _ => unreachable!(),
            };
            if v.len() < 3 {
                return Err(RErr::Syntax);
            }
            match &v[1] {
                Sx::Sym(name) => {
                    let val = self.eval(&v[2], env)?;
                    env.define(name, val);
                    Ok(RV::Unspec)
                }
                Sx::List(sig) if !sig.is_empty() => {
                    let name = sig[0].as_sym().ok_or(RErr::Syntax)?.to_string();
                    let params = sig[1..]
                        .iter()
                        .map(|p| p.as_sym().map(|s| s.to_string()).ok_or(RErr::Syntax))
                        .collect::<Result<Vec<_>, _>>()?;
                    let c = self.make_closure(params, None, v[2..].to_vec(), env);
                    env.define(&name, c);
                    Ok(RV::Unspec)
                }
                Sx::Dotted(sig, rest) if !sig.is_empty() => {
                    let name = sig[0].as_sym().ok_or(RErr::Syntax)?.to_string();
                    let params = sig[1..]
                        .iter()
                        .map(|p| p.as_sym().map(|s| s.to_string()).ok_or(RErr::Syntax))
                        .collect::<Result<Vec<_>, _>>()?;
                    let rest = rest.as_sym().ok_or(RErr::Syntax)?.to_string();
                    let c = self.make_closure(params, Some(rest), v[2..].to_vec(), env);
                    env.define(&name, c);
                    Ok(RV::Unspec)
                }
                _ => Err(RErr::Syntax),
            }
        } else {
            self.eval(form, env)
        }
    }

    fn make_closure(
        &mut self,
        params: Vec<String>,
        rest: Option<String>,
        body: Vec<Sx>,
        env: &FrameRef,
    ) -> RV {
        self.next_closure += 1;
        RV::Closure(Rc::new(Closure {
            id: self.next_closure,
            params,
            rest,
            body,
            env: env.clone(),
        }))
    }

    pub fn eval(&mut self, form: &Sx, env: &FrameRef) -> Result<RV, RErr> {
        self.tick()?;
        self.depth += 1;
        if self.depth > self.max_depth {
            self.depth -= 1;
            return Err(RErr::Budget);
        }
        let r = self.eval_inner(form, env);
        self.depth -= 1;
        r
    }

    fn eval_inner(&mut self, form: &Sx, env: &FrameRef) -> Result<RV, RErr> {
        match form {
            Sx::Int(i) => Ok(RV::Int(*i)),
            Sx::Bool(b) => Ok(RV::Bool(*b)),
            Sx::Char(c) => Ok(RV::Char(*c)),
            Sx::Str(s) => Ok(RV::Str(s.clone())),
            Sx::Vector(_) => Ok(self.datum(form)),
            Sx::Dotted(..) => Err(RErr::Unsupported("dotted form".into())),
            Sx::Sym(name) => env
                .lookup(name)
                .ok_or_else(|| RErr::Unbound(name.clone())),
            Sx::List(v) => {
                if v.is_empty() {
                    return Err(RErr::Syntax);
                }
                if let Some(head) = v[0].as_sym() {
                    match head {
                        "quote" => {
                            if v.len() != 2 {
                                return Err(RErr::Syntax);
                            }
                            return Ok(self.datum(&v[1]));
                        }
                        "if" => {
                            if v.len() < 3 || v.len() > 4 {
                                return Err(RErr::Syntax);
                            }
                            let t = self.eval(&v[1], env)?;
                            let truthy = !matches!(t, RV::Bool(false));
                            return if truthy {
                                self.eval(&v[2], env)
                            } else if v.len() == 4 {
                                self.eval(&v[3], env)
                            } else {
                                Ok(RV::Unspec)
                            };
                        }
                        "define" => {
                            return Err(RErr::Unsupported("define in expression context".into()))
                        }
                        "set!" => {
                            if v.len() != 3 {
                                return Err(RErr::Syntax);
                            }
                            let name = v[1].as_sym().ok_or(RErr::Syntax)?;
                            let val = self.eval(&v[2], env)?;
                            return if env.assign(name, val) {
                                Ok(RV::Unspec)
                            } else {
                                Err(RErr::Unbound(name.to_string()))
                            };
                        }
                        "lambda" => {
                            if v.len() < 3 {
                                return Err(RErr::Syntax);
                            }
                            let (params, rest) = match &v[1] {
                                Sx::Sym(r) => (vec![], Some(r.clone())),
                                Sx::List(ps) => (
                                    ps.iter()
                                        .map(|p| {
                                            p.as_sym().map(|s| s.to_string()).ok_or(RErr::Syntax)
                                        })
                                        .collect::<Result<Vec<_>, _>>()?,
                                    None,
                                ),
                                Sx::Dotted(ps, r) => (
                                    ps.iter()
                                        .map(|p| {
                                            p.as_sym().map(|s| s.to_string()).ok_or(RErr::Syntax)
                                        })
                                        .collect::<Result<Vec<_>, _>>()?,
                                    Some(r.as_sym().ok_or(RErr::Syntax)?.to_string()),
                                ),
                                _ => return Err(RErr::Syntax),
                            };
                            return Ok(self.make_closure(params, rest, v[2..].to_vec(), env));
                        }
                        "let" | "let*" if v.len() >= 3 => {
                            // derived forms: (let ((n v) ...) body ...) = ((lambda (n ...) body ...) v ...);
                            // let* = nested lets. Only non-empty binding lists (the bundled rules need one).
                            let bindings = match &v[1] {
                                Sx::List(b) if !b.is_empty() => b.clone(),
                                _ => return Err(RErr::Unsupported("let without bindings".into())),
                            };
                            let mut pairs = vec![];
                            for b in &bindings {
                                match b {
                                    Sx::List(p) if p.len() == 2 && p[0].as_sym().is_some() => pairs.push((p[0].clone(), p[1].clone())),
                                    _ => return Err(RErr::Syntax),
                                }
                            }
                            let body = v[2..].to_vec();
                            let expanded = if head == "let" || pairs.len() == 1 {
                                let mut lam = vec![Sx::Sym("lambda".into()), Sx::List(pairs.iter().map(|p| p.0.clone()).collect())];
                                lam.extend(body);
                                let mut app = vec![Sx::List(lam)];
                                app.extend(pairs.iter().map(|p| p.1.clone()));
                                Sx::List(app)
                            } else {
                                let first = Sx::List(vec![Sx::List(vec![pairs[0].0.clone(), pairs[0].1.clone()])]);
                                let rest = Sx::List(pairs[1..].iter().map(|p| Sx::List(vec![p.0.clone(), p.1.clone()])).collect());
                                let mut inner = vec![Sx::Sym("let*".into()), rest];
                                inner.extend(body);
                                Sx::List(vec![Sx::Sym("let".into()), first, Sx::List(inner)])
                            };
                            return self.eval(&expanded, env);
                        }
                        // the bundled derived forms, as the report defines them; `begin` is a body
                        // of its own (the bundled rule is ((lambda () exp ...)))
                        "begin" if v.len() >= 2 => {
                            let mut lam = vec![Sx::Sym("lambda".into()), Sx::List(vec![])];
                            lam.extend(v[1..].iter().cloned());
                            return self.eval(&Sx::List(vec![Sx::List(lam)]), env);
                        }
                        "and" => {
                            let mut last = RV::Bool(true);
                            for t in &v[1..] {
                                last = self.eval(t, env)?;
                                if matches!(last, RV::Bool(false)) {
                                    break;
                                }
                            }
                            return Ok(last);
                        }
                        "or" => {
                            let mut last = RV::Bool(false);
                            for t in &v[1..] {
                                last = self.eval(t, env)?;
                                if !matches!(last, RV::Bool(false)) {
                                    break;
                                }
                            }
                            return Ok(last);
                        }
                        "when" | "unless" if v.len() >= 3 => {
                            let t = self.eval(&v[1], env)?;
                            let truthy = !matches!(t, RV::Bool(false));
                            if truthy != (head == "when") {
                                return Ok(RV::Unspec);
                            }
                            let mut b = vec![Sx::Sym("begin".into())];
                            b.extend(v[2..].iter().cloned());
                            return self.eval(&Sx::List(b), env);
                        }
                        "cond" if v.len() >= 2 => {
                            for (i, clause) in v[1..].iter().enumerate() {
                                let c = match clause {
                                    Sx::List(c) if !c.is_empty() => c,
                                    _ => return Err(RErr::Unsupported("cond clause shape".into())),
                                };
                                if c[0].as_sym() == Some("else") {
                                    if i + 2 != v.len() || c.len() < 2 {
                                        return Err(RErr::Unsupported("cond else shape".into()));
                                    }
                                    let mut b = vec![Sx::Sym("begin".into())];
                                    b.extend(c[1..].iter().cloned());
                                    return self.eval(&Sx::List(b), env);
                                }
                                let t = self.eval(&c[0], env)?;
                                if matches!(t, RV::Bool(false)) {
                                    continue;
                                }
                                if c.len() == 1 {
                                    return Ok(t);
                                }
                                if c[1].as_sym() == Some("=>") {
                                    if c.len() != 3 {
                                        return Err(RErr::Unsupported("cond => shape".into()));
                                    }
                                    let f = self.eval(&c[2], env)?;
                                    return self.apply(&f, vec![t]);
                                }
                                let mut b = vec![Sx::Sym("begin".into())];
                                b.extend(c[1..].iter().cloned());
                                return self.eval(&Sx::List(b), env);
                            }
                            return Ok(RV::Unspec);
                        }
                        "import" | "define-library" | "define-syntax" | "begin" | "let" | "let*"
                        | "cond" | "case" | "when" | "unless" => {
                            return Err(RErr::Unsupported(format!("{} in expression", head)))
                        }
                        _ => {}
                    }
                }
                if let Some(head) = v[0].as_sym() {
                    if let Some(RV::Macro(m)) = env.lookup(head) {
                        for (params, tmpl) in &m.rules {
                            if params.len() == v.len() - 1 {
                                let expanded = substitute(tmpl, params, &v[1..]);
                                return self.eval(&expanded, env);
                            }
                        }
                        return Err(RErr::Syntax);
                    }
                }
                let f = self.eval(&v[0], env)?;
                let mut args = Vec::with_capacity(v.len() - 1);
                for a in &v[1..] {
                    args.push(self.eval(a, env)?);
                }
                self.apply(&f, args)
            }
        }
    }

    pub fn apply(&mut self, f: &RV, args: Vec<RV>) -> Result<RV, RErr> {
        self.tick()?;
        match f {
            RV::Closure(c) => {
                if args.len() < c.params.len() || (args.len() > c.params.len() && c.rest.is_none())
                {
                    return Err(RErr::Arity);
                }
                let frame = Frame::child(&c.env);
                let mut it = args.into_iter();
                for p in &c.params {
                    frame.define(p, it.next().unwrap());
                }
                if let Some(r) = &c.rest {
                    let rest: Vec<RV> = it.collect();
                    frame.define(r, list_from(rest));
                }
                self.depth += 1;
                if self.depth > self.max_depth {
                    self.depth -= 1;
                    return Err(RErr::Budget);
                }
                let mut last = RV::Unspec;
                let mut seen_expr = false;
                let mut result = Ok(());
                for form in &c.body {
                    let is_def = form.head_sym() == Some("define");
                    if is_def && seen_expr {
                        result = Err(RErr::Syntax);
                        break;
                    }
                    if !is_def {
                        seen_expr = true;
                    }
                    match self.eval_body_form(form, &frame) {
                        Ok(v) => last = v,
                        Err(e) => {
                            result = Err(e);
                            break;
                        }
                    }
                }
                self.depth -= 1;
                result?;
                if !seen_expr {
                    return Err(RErr::Syntax);
                }
                Ok(last)
            }
            RV::Builtin(name) => {
                let (fixed, var) =
                    builtin_arity(name).ok_or_else(|| RErr::Unsupported(name.clone()))?;
                if args.len() < fixed || (args.len() > fixed && !var) {
                    return Err(RErr::Arity);
                }
                self.builtin(name, args)
            }
            RV::Host(name) => {
                if args.len() != 1 {
                    return Err(RErr::Arity);
                }
                let k = match &args[0] {
                    RV::Int(i) => *i,
                    _ => return Err(RErr::Type),
                };
                match name.as_str() {
                    "sim-flip" => Ok(RV::Bool(self.host.flip(k))),
                    "sim-note" => {
                        self.host.note(k);
                        Ok(RV::Int(k))
                    }
                    o => Err(RErr::Unsupported(o.to_string())),
                }
            }
            _ => Err(RErr::NotProc),
        }
    }

    fn num(v: &RV) -> Result<i64, RErr> {
        match v {
            RV::Int(i) => Ok(*i),
            _ => Err(RErr::Type),
        }
    }

    fn builtin(&mut self, name: &str, args: Vec<RV>) -> Result<RV, RErr> {
        let small = |x: i64| -> Result<RV, RErr> {
            if x.abs() > (1 << 30) {
                Err(RErr::Unsupported("integer out of the modelled range".into()))
            } else {
                Ok(RV::Int(x))
            }
        };
        match name {
            "apply" => {
                let mut args = args;
                let f = args.remove(0);
                if !matches!(f, RV::Closure(_) | RV::Builtin(_) | RV::Host(_)) {
                    return Err(RErr::NotProc);
                }
                if let Some(last) = args.pop() {
                    let spread = list_to_vec(&last).ok_or(RErr::Type)?;
                    args.extend(spread);
                }
                self.apply(&f, args)
            }
            "car" | "cdr" => match &args[0] {
                RV::Pair(p) => Ok(if name == "car" { p.0.clone() } else { p.1.clone() }),
                _ => Err(RErr::Type),
            },
            "cadr" | "cddr" => match &args[0] {
                RV::Pair(p) => match &p.1 {
                    RV::Pair(q) => Ok(if name == "cadr" { q.0.clone() } else { q.1.clone() }),
                    _ => Err(RErr::Type),
                },
                _ => Err(RErr::Type),
            },
            "cons" => Ok(RV::Pair(Rc::new((args[0].clone(), args[1].clone())))),
            "list" => Ok(list_from(args)),
            "list-ref" => {
                let k = Self::num(&args[1])?;
                let mut cur = args[0].clone();
                let mut k = k;
                loop {
                    // (car (list-tail x k)); list-tail recurses on (= k 0)
                    if k == 0 {
                        return match &cur {
                            RV::Pair(p) => Ok(p.0.clone()),
                            _ => Err(RErr::Type),
                        };
                    }
                    if k < 0 {
                        return Err(RErr::Unsupported("negative list-ref".into()));
                    }
                    cur = match &cur {
                        RV::Pair(p) => p.1.clone(),
                        _ => return Err(RErr::Type),
                    };
                    k -= 1;
                }
            }
            "eq?" | "eqv?" => {
                let r = match (&args[0], &args[1]) {
                    (RV::Vector(a), RV::Vector(b)) => a == b,
                    (RV::Nil, RV::Nil) => true,
                    (RV::Int(a), RV::Int(b)) => a == b,
                    (RV::Bool(a), RV::Bool(b)) => a == b,
                    (RV::Char(a), RV::Char(b)) => a == b,
                    (RV::Sym(a), RV::Sym(b)) => a == b,
                    (RV::Pair(_), RV::Pair(_))
                    | (RV::Str(_), RV::Str(_))
                    | (RV::Closure(_), RV::Closure(_))
                    | (RV::Builtin(_), RV::Builtin(_)) => {
                        return Err(RErr::Unsupported("eq? left open by the report".into()))
                    }
                    _ => false,
                };
                Ok(RV::Bool(r))
            }
            "pair?" => Ok(RV::Bool(matches!(args[0], RV::Pair(_)))),
            "null?" => Ok(RV::Bool(matches!(args[0], RV::Nil))),
            "not" => Ok(RV::Bool(matches!(args[0], RV::Bool(false)))),
            "vector?" => Ok(RV::Bool(matches!(args[0], RV::Vector(_)))),
            "procedure?" => Ok(RV::Bool(matches!(
                args[0],
                RV::Closure(_) | RV::Builtin(_) | RV::Host(_)
            ))),
            "number?" => Ok(RV::Bool(matches!(args[0], RV::Int(_)))),
            "boolean?" => Ok(RV::Bool(matches!(args[0], RV::Bool(_)))),
            "symbol?" => Ok(RV::Bool(matches!(args[0], RV::Sym(_)))),
            "string?" => Ok(RV::Bool(matches!(args[0], RV::Str(_)))),
            "char?" => Ok(RV::Bool(matches!(args[0], RV::Char(_)))),
            "+" => {
                let mut acc = 0i64;
                for a in &args {
                    acc += Self::num(a)?;
                }
                small(acc)
            }
            "*" => {
                let mut acc = 1i64;
                for a in &args {
                    acc = acc.saturating_mul(Self::num(a)?);
                }
                small(acc)
            }
            "-" => {
                let first = Self::num(&args[0])?;
                if args.len() == 1 {
                    return small(-first);
                }
                let mut acc = first;
                for a in &args[1..] {
                    acc -= Self::num(a)?;
                }
                small(acc)
            }
            "/" => {
                let first = Self::num(&args[0])?;
                let rest: Vec<i64> = args[1..]
                    .iter()
                    .map(Self::num)
                    .collect::<Result<_, _>>()?;
                let (num0, divisors) = if rest.is_empty() {
                    (1, vec![first])
                } else {
                    (first, rest)
                };
                // dividing by an exact zero is an error wherever it stands in the fold
                if divisors.iter().any(|d| *d == 0) {
                    return Err(RErr::DivZero);
                }
                let mut den: i64 = 1;
                for d in divisors {
                    den = den.saturating_mul(d);
                }
                if den == 0 || num0 % den != 0 {
                    return Err(RErr::Unsupported("inexact division".into()));
                }
                small(num0 / den)
            }
            "floor-quotient" | "floor-remainder" => {
                let a = Self::num(&args[0])?;
                let b = Self::num(&args[1])?;
                if b == 0 {
                    return Err(RErr::DivZero);
                }
                let (q0, r0) = (a / b, a % b);
                let q = if r0 != 0 && ((r0 < 0) != (b < 0)) { q0 - 1 } else { q0 };
                if name == "floor-quotient" {
                    small(q)
                } else {
                    small(a - q * b)
                }
            }
            "=" | "<" | ">" | "<=" | ">=" => {
                let nums: Vec<i64> = args.iter().map(Self::num).collect::<Result<_, _>>()?;
                let ok = nums.windows(2).all(|w| match name {
                    "=" => w[0] == w[1],
                    "<" => w[0] < w[1],
                    ">" => w[0] > w[1],
                    "<=" => w[0] <= w[1],
                    _ => w[0] >= w[1],
                });
                Ok(RV::Bool(ok))
            }
            "abs" => small(Self::num(&args[0])?.abs()),
            "floor" | "ceiling" => small(Self::num(&args[0])?),
            "max" | "min" => {
                let nums: Vec<i64> = args.iter().map(Self::num).collect::<Result<_, _>>()?;
                let v = if name == "max" { nums.iter().max() } else { nums.iter().min() };
                small(*v.unwrap())
            }
            "vector" => Ok(self.new_vector(args, true)),
            "make-vector" => {
                let k = Self::num(&args[0])?;
                if k < 0 {
                    return Err(RErr::NegLen);
                }
                if k > 4096 {
                    return Err(RErr::Unsupported("huge vector".into()));
                }
                let items = vec![args[1].clone(); k as usize];
                Ok(self.new_vector(items, true))
            }
            "vector-length" => match &args[0] {
                RV::Vector(id) => Ok(RV::Int(self.vectors[*id].items.len() as i64)),
                _ => Err(RErr::Type),
            },
            "vector-ref" => {
                let id = match &args[0] {
                    RV::Vector(id) => *id,
                    _ => return Err(RErr::Type),
                };
                let k = Self::num(&args[1])?;
                if k < 0 || k as usize >= self.vectors[id].items.len() {
                    return Err(RErr::Index);
                }
                Ok(self.vectors[id].items[k as usize].clone())
            }
            "vector-set!" => {
                let id = match &args[0] {
                    RV::Vector(id) => *id,
                    _ => return Err(RErr::Type),
                };
                let k = Self::num(&args[1])?;
                if !self.vectors[id].mutable {
                    return Err(RErr::Immutable);
                }
                if k < 0 || k as usize >= self.vectors[id].items.len() {
                    return Err(RErr::Index);
                }
                self.vectors[id].items[k as usize] = args[2].clone();
                Ok(RV::Unspec)
            }
            "map" => {
                // the bundled definition: (if (pair? list) (cons (proc (car list)) (map proc (cdr list))) list)
                let f = args[0].clone();
                let items = match list_to_vec(&args[1]) {
                    Some(v) => v,
                    None => return Err(RErr::Unsupported("map over an improper list".into())),
                };
                let mut out = vec![];
                for x in items {
                    out.push(self.apply(&f, vec![x])?);
                }
                Ok(list_from(out))
            }
            "for-each" => {
                let f = args[0].clone();
                let mut cur = args[1].clone();
                while let RV::Pair(p) = &cur.clone() {
                    self.apply(&f, vec![p.0.clone()])?;
                    cur = p.1.clone();
                }
                Ok(RV::Unspec)
            }
            "fold-left" => {
                let f = args[0].clone();
                let mut acc = args[1].clone();
                let mut cur = args[2].clone();
                loop {
                    match &cur.clone() {
                        RV::Nil => return Ok(acc),
                        RV::Pair(p) => {
                            acc = self.apply(&f, vec![p.0.clone(), acc])?;
                            cur = p.1.clone();
                        }
                        _ => return Err(RErr::Type),
                    }
                }
            }
            "fold-right" => {
                let f = args[0].clone();
                let items = list_to_vec(&args[2]).ok_or(RErr::Type)?;
                let mut acc = args[1].clone();
                for x in items.into_iter().rev() {
                    acc = self.apply(&f, vec![x, acc])?;
                }
                Ok(acc)
            }
            o => Err(RErr::Unsupported(o.to_string())),
        }
    }

    // ------------------------------------------------------------ modules

    pub fn eval_import(&mut self, sets: &[Sx], target: &FrameRef) -> Result<(), RErr> {
        let mut all: BTreeMap<String, RV> = BTreeMap::new();
        for set in sets {
            for (k, v) in self.eval_import_set(set)? {
                all.insert(k, v);
            }
        }
        for (k, v) in all {
            target.define(&k, v);
        }
        Ok(())
    }

    pub fn eval_import_set(&mut self, set: &Sx) -> Result<BTreeMap<String, RV>, RErr> {
        let v = match set {
            Sx::List(v) if !v.is_empty() => v,
            _ => return Err(RErr::Syntax),
        };
        let idents = |xs: &[Sx]| -> Result<Vec<String>, RErr> {
            xs.iter()
                .map(|x| x.as_sym().map(|s| s.to_string()).ok_or(RErr::Syntax))
                .collect()
        };
        match v[0].as_sym() {
            Some("only") if v.len() >= 2 => {
                let inner = self.eval_import_set(&v[1])?;
                let ids = idents(&v[2..])?;
                Ok(inner.into_iter().filter(|(k, _)| ids.contains(k)).collect())
            }
            Some("except") if v.len() >= 2 => {
                let inner = self.eval_import_set(&v[1])?;
                let ids = idents(&v[2..])?;
                Ok(inner.into_iter().filter(|(k, _)| !ids.contains(k)).collect())
            }
            Some("prefix") if v.len() == 3 => {
                let inner = self.eval_import_set(&v[1])?;
                let p = v[2].as_sym().ok_or(RErr::Syntax)?;
                Ok(inner
                    .into_iter()
                    .map(|(k, val)| (format!("{}{}", p, k), val))
                    .collect())
            }
            Some("rename") if v.len() >= 2 => {
                let inner = self.eval_import_set(&v[1])?;
                let mut map = BTreeMap::new();
                for pair in &v[2..] {
                    match pair {
                        Sx::List(p) if p.len() == 2 => {
                            map.insert(
                                p[0].as_sym().ok_or(RErr::Syntax)?.to_string(),
                                p[1].as_sym().ok_or(RErr::Syntax)?.to_string(),
                            );
                        }
                        _ => return Err(RErr::Syntax),
                    }
                }
                // simultaneous renaming
                Ok(inner
                    .into_iter()
                    .map(|(k, val)| match map.get(&k) {
                        Some(to) => (to.clone(), val),
                        None => (k, val),
                    })
                    .collect())
            }
            _ => self.import_library(&lib_key(set)),
        }
    }

    pub fn import_library(&mut self, key: &str) -> Result<BTreeMap<String, RV>, RErr> {
        if let Some(inst) = self.instances.get(key) {
            return Ok(inst.clone());
        }
        if self.loading.iter().any(|l| l == key) {
            return Err(RErr::LibCyclic(key.to_string()));
        }
        self.loading.push(key.to_string());
        let r = self.instantiate(key);
        self.loading.pop();
        let exports = r?;
        self.instances.insert(key.to_string(), exports.clone());
        Ok(exports)
    }

    fn instantiate(&mut self, key: &str) -> Result<BTreeMap<String, RV>, RErr> {
        let entry = match self.world.get(key) {
            None => return Err(RErr::LibNotFound(key.to_string())),
            Some(e) => e.clone(),
        };
        self.instantiations += 1;
        match entry {
            LibEntry::Broken => Err(RErr::LibBroken(key.to_string())),
            LibEntry::Native(items) => Ok(items
                .into_iter()
                .map(|(n, v)| {
                    (
                        n,
                        match v {
                            NativeVal::IntVector(xs) => {
                                let items = xs.into_iter().map(RV::Int).collect();
                                self.new_vector(items, true)
                            }
                            NativeVal::Int(i) => RV::Int(i),
                            NativeVal::Sym(s) => RV::Sym(s),
                            NativeVal::Builtin(b) => RV::Builtin(b),
                            NativeVal::Host(h) => RV::Host(h),
                        },
                    )
                })
                .collect()),
            LibEntry::Def(def) => {
                let decls = match &def {
                    Sx::List(v) if v.len() >= 2 && v[0].as_sym() == Some("define-library") => {
                        v[2..].to_vec()
                    }
                    _ => return Err(RErr::Syntax),
                };
                let env = Frame::new_root();
                let mut exports: Vec<(String, String)> = vec![];
                for d in &decls {
                    let dv = match d {
                        Sx::List(dv) if !dv.is_empty() => dv,
                        _ => return Err(RErr::Syntax),
                    };
                    match dv[0].as_sym() {
                        Some("import") => self.eval_import(&dv[1..], &env)?,
                        Some("export") => {
                            for spec in &dv[1..] {
                                match spec {
                                    Sx::Sym(s) => exports.push((s.clone(), s.clone())),
                                    Sx::List(r)
                                        if r.len() == 3 && r[0].as_sym() == Some("rename") =>
                                    {
                                        exports.push((
                                            r[1].as_sym().ok_or(RErr::Syntax)?.to_string(),
                                            r[2].as_sym().ok_or(RErr::Syntax)?.to_string(),
                                        ))
                                    }
                                    _ => return Err(RErr::Syntax),
                                }
                            }
                        }
                        Some("begin") => {
                            for f in &dv[1..] {
                                self.eval_body_form(f, &env)?;
                            }
                        }
                        _ => return Err(RErr::Syntax),
                    }
                }
                let mut out = BTreeMap::new();
                for (from, to) in exports {
                    match env.lookup(&from) {
                        Some(v) => {
                            out.insert(to, v);
                        }
                        None => return Err(RErr::Unbound(from)),
                    }
                }
                Ok(out)
            }
        }
    }
}

fn substitute(tmpl: &Sx, params: &[String], args: &[Sx]) -> Sx {
    match tmpl {
        Sx::Sym(s) => match params.iter().position(|p| p == s) {
            Some(i) => args[i].clone(),
            None => tmpl.clone(),
        },
        Sx::List(v) => Sx::List(v.iter().map(|x| substitute(x, params, args)).collect()),
        Sx::Vector(v) => Sx::Vector(v.iter().map(|x| substitute(x, params, args)).collect()),
        Sx::Dotted(v, t) => Sx::Dotted(
            v.iter().map(|x| substitute(x, params, args)).collect(),
            Box::new(substitute(t, params, args)),
        ),
        other => other.clone(),
    }
}

pub fn list_from(items: Vec<RV>) -> RV {
    let mut acc = RV::Nil;
    for x in items.into_iter().rev() {
        acc = RV::Pair(Rc::new((x, acc)));
    }
    acc
}

pub fn list_to_vec(v: &RV) -> Option<Vec<RV>> {
    let mut out = vec![];
    let mut cur = v.clone();
    loop {
        match &cur.clone() {
            RV::Nil => return Some(out),
            RV::Pair(p) => {
                out.push(p.0.clone());
                cur = p.1.clone();
            }
            _ => return None,
        }
    }
}
