//! Structural observation of values and errors, the same shape for the real
//! interpreter and for the reference model. Never uses `Display` of a value
//! (a transformer prints a HashSet; procedures print their formals only).

use crate::hashseed::{guarded, PanicRecord};
use crate::refint::{HostState, Machine, RErr, RV};
use ruschm::error::{ErrorData, SchemeError};
use ruschm::interpreter::error::LogicError;
use ruschm::interpreter::{Interpreter, LibraryFactory};
use ruschm::parser::LibraryName;
use ruschm::values::{Number, Procedure, Type, Value, ValueReference};
use std::cell::RefCell;
use std::rc::Rc;

#[derive(Clone, Debug, PartialEq, Eq)]
pub enum Obs {
    Int(i64),
    Bool(bool),
    Char(char),
    Str(String),
    Sym(String),
    Nil,
    Pair(Box<Obs>, Box<Obs>),
    Vector(bool, Vec<Obs>),
    Proc,
    Unspec,
    Other(String),
}

impl Obs {
    pub fn short(&self) -> String {
        match self {
            Obs::Int(i) => i.to_string(),
            Obs::Bool(true) => "#t".into(),
            Obs::Bool(false) => "#f".into(),
            Obs::Char(c) => format!("#\\{}", c),
            Obs::Str(s) => format!("{:?}", s),
            Obs::Sym(s) => s.clone(),
            Obs::Nil => "()".into(),
            Obs::Pair(a, b) => format!("({} . {})", a.short(), b.short()),
            Obs::Vector(_, v) => format!(
                "#({})",
                v.iter().map(|x| x.short()).collect::<Vec<_>>().join(" ")
            ),
            Obs::Proc => "<proc>".into(),
            Obs::Unspec => "<unspec>".into(),
            Obs::Other(s) => format!("<other {}>", s),
        }
    }
    /// `self` is the expectation; Unspec accepts anything
    pub fn accepts(&self, got: &Obs) -> bool {
        match (self, got) {
            (Obs::Unspec, _) => true,
            (Obs::Pair(a, b), Obs::Pair(c, d)) => a.accepts(c) && b.accepts(d),
            // mutability is judged by behaviour (vector-set! on a literal must be refused),
            // not by how the implementation happens to represent a literal
            (Obs::Vector(_, v), Obs::Vector(_, w)) => {
                v.len() == w.len() && v.iter().zip(w).all(|(x, y)| x.accepts(y))
            }
            (a, b) => a == b,
        }
    }
}

pub fn obs_of_value(v: &Value<f32>) -> Obs {
    obs_of_value_d(v, 0)
}

fn obs_of_value_d(v: &Value<f32>, depth: u32) -> Obs {
    if depth > 200 {
        return Obs::Other("too deep".into());
    }
    match v {
        Value::Number(Number::Integer(i)) => Obs::Int(*i as i64),
        Value::Number(n) => Obs::Other(format!("num {}", n)),
        Value::Boolean(b) => Obs::Bool(*b),
        Value::Character(c) => Obs::Char(*c),
        Value::String(s) => Obs::Str(s.clone()),
        Value::Symbol(s) => Obs::Sym(s.clone()),
        Value::Procedure(_) => Obs::Proc,
        Value::Vector(r) => {
            // whether a vector may be modified is judged by behaviour, never read off the
            // representation (which is the implementation's business)
            let mutable = true;
            let items = r.as_ref().iter().map(|x| obs_of_value_d(x, depth + 1)).collect();
            Obs::Vector(mutable, items)
        }
        Value::Pair(p) => match p.as_ref() {
            ruschm::parser::pair::GenericPair::Empty => Obs::Nil,
            ruschm::parser::pair::GenericPair::Some(a, b) => Obs::Pair(
                Box::new(obs_of_value_d(a, depth + 1)),
                Box::new(obs_of_value_d(b, depth + 1)),
            ),
        },
        Value::Transformer(_) => Obs::Other("transformer".into()),
        Value::Void => Obs::Unspec,
    }
}

pub fn obs_of_rv(m: &Machine, v: &RV) -> Obs {
    obs_of_rv_d(m, v, 0)
}

fn obs_of_rv_d(m: &Machine, v: &RV, depth: u32) -> Obs {
    if depth > 200 {
        return Obs::Other("too deep".into());
    }
    match v {
        RV::Int(i) => Obs::Int(*i),
        RV::Bool(b) => Obs::Bool(*b),
        RV::Char(c) => Obs::Char(*c),
        RV::Str(s) => Obs::Str(s.clone()),
        RV::Sym(s) => Obs::Sym(s.clone()),
        RV::Nil => Obs::Nil,
        RV::Pair(p) => Obs::Pair(
            Box::new(obs_of_rv_d(m, &p.0, depth + 1)),
            Box::new(obs_of_rv_d(m, &p.1, depth + 1)),
        ),
        RV::Vector(id) => {
            let o = &m.vectors[*id];
            Obs::Vector(
                o.mutable,
                o.items.iter().map(|x| obs_of_rv_d(m, x, depth + 1)).collect(),
            )
        }
        RV::Closure(_) | RV::Builtin(_) | RV::Host(_) => Obs::Proc,
        RV::Macro(_) => Obs::Other("transformer".into()),
        RV::Unspec => Obs::Unspec,
    }
}

/// error kinds shared by model and implementation
#[derive(Clone, Debug, PartialEq, Eq, PartialOrd, Ord)]
pub enum EKind {
    Unbound(String),
    NotProc,
    Arity,
    Type,
    Index,
    Immutable,
    DivZero,
    NegLen,
    LibCyclic(String),
    LibNotFound(String),
    Syntax,
    Io,
    LateImport,
    Budget,
    Other(String),
}

impl EKind {
    pub fn short(&self) -> String {
        format!("{:?}", self)
    }
}

pub fn kind_of_rerr(e: &RErr) -> EKind {
    match e {
        RErr::Unbound(n) => EKind::Unbound(n.clone()),
        RErr::NotProc => EKind::NotProc,
        RErr::Arity => EKind::Arity,
        RErr::Type => EKind::Type,
        RErr::Index => EKind::Index,
        RErr::Immutable => EKind::Immutable,
        RErr::DivZero => EKind::DivZero,
        RErr::NegLen => EKind::NegLen,
        RErr::LibCyclic(l) => EKind::LibCyclic(l.clone()),
        RErr::LibNotFound(l) => EKind::LibNotFound(l.clone()),
        RErr::LibBroken(_) => EKind::Syntax,
        RErr::Syntax => EKind::Syntax,
        RErr::LateImport => EKind::LateImport,
        RErr::Budget => EKind::Budget,
        RErr::Unsupported(s) => EKind::Other(format!("unsupported: {}", s)),
    }
}

pub fn kind_of_error(e: &SchemeError) -> EKind {
    match &e.data {
        ErrorData::Syntax(se) => {
            // "import after the import part" is reported as ExpectSomething(expression/definition)
            if let ruschm::parser::error::SyntaxError::ExpectSomething(a, b) = se {
                if a == "expression/definition" && b == "other statement" {
                    return EKind::LateImport;
                }
            }
            EKind::Syntax
        }
        ErrorData::IO(_) => EKind::Io,
        ErrorData::Logic(le) => match le {
            LogicError::UnboundedSymbol(n) => EKind::Unbound(n.clone()),
            LogicError::TypeMisMatch(_, Type::Procedure) => EKind::NotProc,
            LogicError::TypeMisMatch(_, _) => EKind::Type,
            LogicError::ArgumentMissMatch(_, _) => EKind::Arity,
            LogicError::VectorIndexOutOfBounds => EKind::Index,
            LogicError::RequiresMutable(_) => EKind::Immutable,
            LogicError::DivisionByZero => EKind::DivZero,
            LogicError::NegativeLength => EKind::NegLen,
            LogicError::LibraryImportCyclic(l) => EKind::LibCyclic(l.to_string()),
            LogicError::LibraryNotFound(l) => EKind::LibNotFound(l.to_string()),
            LogicError::MetaCircularSyntax(_) => EKind::Syntax,
            LogicError::Extension(s) if s.starts_with("verif: budget") => EKind::Budget,
            other => EKind::Other(format!("{:?}", std::mem::discriminant(other))),
        },
    }
}

#[derive(Clone, Debug)]
pub enum Outcome {
    /// None = no value (definition)
    Value(Option<Obs>),
    Error(EKind),
    Panic(PanicRecord),
}

impl Outcome {
    pub fn short(&self) -> String {
        match self {
            Outcome::Value(None) => "ok".into(),
            Outcome::Value(Some(o)) => o.short(),
            Outcome::Error(k) => format!("ERR {}", k.short()),
            Outcome::Panic(p) => format!("PANIC {}", p.signature()),
        }
    }
}

pub fn library_name_of(parts: &[&str]) -> LibraryName {
    LibraryName(
        parts
            .iter()
            .map(|p| match p.parse::<u32>() {
                Ok(i) => ruschm::parser::LibraryNameElement::Integer(i),
                Err(_) => ruschm::parser::LibraryNameElement::Identifier(p.to_string()),
            })
            .collect(),
    )
}

pub type SharedHost = Rc<RefCell<HostState>>;

fn int_arg(args: &ruschm::values::ArgVec<f32>) -> Result<i64, SchemeError> {
    match args.first() {
        Some(Value::Number(Number::Integer(i))) => Ok(*i as i64),
        Some(other) => Err(ruschm::error::ToLocated::no_locate(ErrorData::Logic(
            LogicError::TypeMisMatch(other.to_string(), Type::Integer),
        ))),
        None => Err(ruschm::error::ToLocated::no_locate(ErrorData::Logic(
            LogicError::Extension("missing argument".into()),
        ))),
    }
}

pub fn host_procedures(host: &SharedHost) -> Vec<(String, Value<f32>)> {
    let h1 = host.clone();
    let h2 = host.clone();
    vec![
        (
            "sim-flip".to_string(),
            Value::Procedure(Procedure::new_builtin_impure(
                "sim-flip".to_string(),
                ruschm::param_fixed!["site"],
                move |args, _env| {
                    let k = int_arg(&args)?;
                    Ok(Value::Boolean(h1.borrow_mut().flip(k)))
                },
            )),
        ),
        (
            "sim-note".to_string(),
            Value::Procedure(Procedure::new_builtin_impure(
                "sim-note".to_string(),
                ruschm::param_fixed!["k"],
                move |args, _env| {
                    let k = int_arg(&args)?;
                    h2.borrow_mut().note(k);
                    Ok(Value::Number(Number::Integer(k as i32)))
                },
            )),
        ),
    ]
}

/// The system under test, in-process: one real interpreter plus the host state
/// its `(sim host)` procedures close over.
pub struct RealSys {
    pub it: Interpreter<'static, f32>,
    pub host: SharedHost,
}

impl RealSys {
    pub fn new(with_stdlib: bool) -> Result<RealSys, PanicRecord> {
        let host: SharedHost = Rc::new(RefCell::new(HostState::default()));
        let it = guarded(|| {
            if with_stdlib {
                Interpreter::<f32>::new_with_stdlib()
            } else {
                Interpreter::<f32>::default()
            }
        })?;
        let mut sys = RealSys { it, host };
        let h = sys.host.clone();
        sys.it
            .register_library_factory(LibraryFactory::Native(
                library_name_of(&["sim", "host"]),
                Box::new(move || host_procedures(&h)),
            ));
        Ok(sys)
    }
    /// bind the host procedures directly in the root frame (host seam)
    pub fn define_host(&self) {
        for (n, v) in host_procedures(&self.host) {
            self.it.env.define(n, v);
        }
    }
    pub fn eval_text(&mut self, text: &str) -> Outcome {
        let it = &mut self.it;
        match guarded(|| it.eval(text.chars())) {
            Ok(Ok(v)) => Outcome::Value(v.as_ref().map(obs_of_value)),
            Ok(Err(e)) => Outcome::Error(kind_of_error(&e)),
            Err(p) => Outcome::Panic(p),
        }
    }
    /// like eval_text but keeps the error for message comparisons
    pub fn eval_raw(
        &mut self,
        text: &str,
    ) -> Result<Result<Option<Value<f32>>, SchemeError>, PanicRecord> {
        let it = &mut self.it;
        guarded(|| it.eval(text.chars()))
    }
    pub fn global(&self, name: &str) -> Option<Obs> {
        self.it.env.get(name).map(|v| obs_of_value(&v))
    }
}

pub fn model_outcome(m: &Machine, r: &Result<RV, RErr>) -> Outcome {
    match r {
        Ok(v) => Outcome::Value(Some(obs_of_rv(m, v))),
        Err(e) => Outcome::Error(kind_of_rerr(e)),
    }
}

/// does the observed outcome satisfy the model's expectation?
pub fn outcome_matches(expected: &Outcome, got: &Outcome) -> bool {
    match (expected, got) {
        (Outcome::Value(Some(e)), Outcome::Value(Some(g))) => e.accepts(g),
        // a definition yields no value in Ruschm; the model says Unspec
        (Outcome::Value(Some(Obs::Unspec)), Outcome::Value(None)) => true,
        (Outcome::Value(None), Outcome::Value(_)) => true,
        (Outcome::Error(a), Outcome::Error(b)) => a == b,
        _ => false,
    }
}
