//! Engine F, "repl-sim" (C18): the real binary without arguments, driven through a
//! pipe by a simulated user who types one line at a time in lock-step (FIONREAD +
//! /proc/PID/syscall), under several line splittings of one sequence of
//! submissions, with EOF as a fault after a random line. Oracle: an independent
//! completeness judge (the generator knows the nesting depth at every line end),
//! per-line attribution of output, and in-process evaluation of the submissions.

use crate::framework::*;
use crate::hashseed::{guarded, on_fresh_thread, ThreadOutcome};
use crate::procio::*;
use crate::rng::{fnv64, Rng};
use ruschm::interpreter::Interpreter;
use ruschm::values::Value as RValue;
use serde_json::{json, Value};
use std::time::Duration;

pub struct EngineF;
pub static ENGINE_C18: EngineF = EngineF;

// ------------------------------------------------------------------ tokens

/// split a form into tokens; strings, characters and |identifiers| are single tokens
pub(crate) fn tokens(form: &str) -> Vec<String> {
    let cs: Vec<char> = form.chars().collect();
    let mut out = vec![];
    let mut i = 0;
    while i < cs.len() {
        let c = cs[i];
        if c.is_whitespace() {
            i += 1;
        } else if c == '(' || c == ')' || c == '\'' {
            out.push(c.to_string());
            i += 1;
        } else if c == '"' {
            let mut j = i + 1;
            while j < cs.len() && cs[j] != '"' {
                if cs[j] == '\\' {
                    j += 1;
                }
                j += 1;
            }
            out.push(cs[i..=j.min(cs.len() - 1)].iter().collect());
            i = j + 1;
        } else if c == '#' && cs.get(i + 1) == Some(&'\\') {
            out.push(cs[i..(i + 3).min(cs.len())].iter().collect());
            i += 3;
        } else if c == '#' && cs.get(i + 1) == Some(&'(') {
            out.push("#(".to_string());
            i += 2;
        } else if c == '|' {
            let mut j = i + 1;
            while j < cs.len() && cs[j] != '|' {
                j += 1;
            }
            out.push(cs[i..=j.min(cs.len() - 1)].iter().collect());
            i = j + 1;
        } else {
            let mut j = i;
            while j < cs.len() && !cs[j].is_whitespace() && cs[j] != '(' && cs[j] != ')' && cs[j] != '"' {
                j += 1;
            }
            out.push(cs[i..j].iter().collect());
            i = j;
        }
    }
    out
}

fn depth_delta(tok: &str) -> i32 {
    match tok {
        "(" | "#(" => 1,
        ")" => -1,
        _ => 0,
    }
}

// ------------------------------------------------------------------ generation

fn gen_form(rng: &mut Rng, literals_with_parens: bool, defined: &mut Vec<String>) -> (String, &'static str) {
    if rng.chance(1, 14) {
        // a string literal that contains a line break: it can only be typed on two lines
        let a = *rng.pick(&["top", "first (line", "a;b"]);
        let b = *rng.pick(&["bottom", "second) line", ""]);
        // sometimes with an empty or blank line in the middle of the literal
        let mid = *rng.pick(&["", "", "\n", "  \n", "\n\n"]);
        return (format!("(display \"{}\n{}{}\")", a, mid, b), "newline-in-string");
    }
    let c = rng.upto(if literals_with_parens { 20 } else { 12 });
    match c {
        0 => {
            let name = format!("v{}", defined.len());
            defined.push(name.clone());
            (format!("(define {} {})", name, rng.range(0, 99)), "definition")
        }
        1 => {
            let name = format!("f{}", defined.len());
            defined.push(name.clone());
            (format!("(define ({} a b) (+ a (* b {})))", name, rng.range(1, 9)), "definition")
        }
        2 => (format!("(+ {} (* {} {}))", rng.range(0, 9), rng.range(0, 9), rng.range(0, 9)), "expression"),
        3 => match defined.iter().find(|d| d.starts_with('v')) {
            Some(v) => (format!("(+ {} 1)", v), "expression"),
            None => ("(car '(1 2))".to_string(), "expression"),
        },
        4 => match defined.iter().find(|d| d.starts_with('f')) {
            Some(f) => (format!("({} {} {})", f, rng.range(0, 9), rng.range(0, 9)), "expression"),
            None => ("(cdr '(1 2 3))".to_string(), "expression"),
        },
        5 => ("'(a (b c) #(1 2))".to_string(), "quoted-data"),
        6 => (format!("(vector {} 'x \"s\")", rng.range(0, 9)), "expression"),
        7 => ((*rng.pick(&["(car 5)", "(undefined-thing)", "(vector-ref (vector 1) 9)", "(/ 7 0)", "(\"f\" 1)"])).to_string(), "failing-runtime"),
        8 if rng.chance(1, 4) => {
            // a surplus closing parenthesis after a complete form that has an effect: the form
            // is evaluated (its effect stays), then the error is reported
            if rng.chance(1, 2) {
                ("(display \"shown\"))".to_string(), "failing-syntax")
            } else {
                let name = format!("v{}", defined.len());
                defined.push(name.clone());
                (format!("(define {} {}))", name, rng.range(0, 99)), "failing-syntax")
            }
        }
        8 if rng.chance(1, 4) => {
            // the line ends right after a quote mark: no list is open, so the submission is
            // evaluated now (and fails at its end); whatever stood before it was evaluated once
            ("'".to_string(), "dangling-datum")
        }
        8 => ((*rng.pick(&["(define)", "(if)", "(lambda)", "(let ((x)) x)", ")", "(+ 1 2) )"])).to_string(), "failing-syntax"),
        9 if rng.chance(1, 5) => {
            // a macro whose rule uses the ellipsis (the token `...` may end a line of the form),
            // and its use
            let n = rng.range(1, 3);
            if rng.chance(1, 2) {
                (format!("(define-syntax lst{n} (syntax-rules () ((lst{n} a ...) (list a ...))))", n = n), "macro-definition")
            } else {
                (format!("(lst{} 1 2 {})", n, rng.range(0, 9)), "macro-use")
            }
        }
        9 if rng.chance(1, 3) => {
            // a macro defined in the session, to be used by later submissions
            let n = rng.range(1, 3);
            if rng.chance(1, 2) {
                (format!("(define-syntax inc{n} (syntax-rules () ((inc{n} x) (+ x {n}))))", n = n), "macro-definition")
            } else {
                (format!("(inc{} {})", n, rng.range(0, 9)), "macro-use")
            }
        }
        9 if rng.chance(1, 2) => (
            (*rng.pick(&[
                "'()", "(< 2 1)", "\"a string\"", "#\\a", "(vector)", "(cdr '(1))", "(vector 1 (vector 2) '(3))", "'sym",
                "car", "(lambda (x) x)", "(/ 6 4)", "2.5", "(* 1.0 3)", "(cons 1 2)", "(list)", "#t", "(if #f #f)", "'(1 . 2)",
                "(list 1 (list 2 (list 3 '())) \"s\" #\\b)",
                // values that print as several lines
                "\"two\\nlines\"", "(list \"a\\nb\" 1)", "\"ends with a line break\\n\"", "\"\"",
            ]))
            .to_string(),
            "value-kinds",
        ),
        9 => (format!("(if (< {} 5) 'small 'big)", rng.range(0, 9)), "expression"),
        10 => ("(display \"shown\")".to_string(), "display"),
        11 if rng.chance(1, 5) => {
            // a very long line: longer than the terminal layer's and the pipe's buffers
            let n = *rng.pick(&[1000usize, 4095, 4096, 9000, 70000]);
            let filler: String = (0..n).map(|i| (b'a' + (i % 19) as u8) as char).collect();
            let name = format!("v{}", defined.len());
            defined.push(name.clone());
            (format!("(define {} (quote ({} {})))", name, filler, rng.range(0, 9)), "long-line")
        }
        11 => (format!("((lambda (x) (display x) (newline) (* x 2)) {})", rng.range(1, 9)), "display"),
        // literals that contain parentheses and semicolons
        12 => ("(display \"(\")".to_string(), "paren-in-string"),
        13 => ("(cons #\\( '())".to_string(), "paren-in-character"),
        14 => ("(display \"a;b\")".to_string(), "semicolon-in-string"),
        15 => ("(list \")\" #\\) \"(()\")".to_string(), "paren-in-string"),
        16 => ("(display \"q\\\"(\")".to_string(), "paren-in-string"),
        17 => ("(cons #\\; '(after))".to_string(), "semicolon-in-character"),
        18 if rng.chance(1, 2) => {
            // a |quoted identifier| whose last character is a backslash (no escapes in there)
            let name = format!("v{}", defined.len());
            defined.push(name.clone());
            (format!("(define {} (quote |a\\|))", name), "backslash-in-identifier")
        }
        18 => ("(quote |a(b;c|)".to_string(), "paren-in-identifier"),
        19 if rng.chance(1, 2) => {
            // a string that ends in an escaped backslash
            let name = format!("v{}", defined.len());
            defined.push(name.clone());
            (format!("(define {} \"C:\\\\\")", name), "backslash-at-string-end")
        }
        _ => ("(list #\\\" 1 \")\")".to_string(), "paren-in-string"),
    }
}

/// a session: submissions (1-3 forms that end on one line), K splittings, EOF position
fn generate_f(seed: u64, quick: bool) -> Value {
    let mut rng = Rng::new(seed);
    let hash_seed = rng.next_u64() | 1;
    let literals = rng.chance(1, 3);
    // now and then a long session: nothing may wear out
    let nsub = if rng.chance(1, 80) { rng.range(150, 260) } else if quick { rng.range(3, 10) } else { rng.range(3, 20) } as usize;
    let mut defined = vec![];
    let mut subs: Vec<Value> = vec![];
    for _ in 0..nsub {
        let nf = rng.pick_weighted(&[7, 2, 1]) + 1;
        let mut forms = vec![];
        let mut kinds = vec![];
        for _ in 0..nf {
            let (f, k) = gen_form(&mut rng, literals, &mut defined);
            let unbalanced = tokens(&f).iter().map(|t| depth_delta(t)).sum::<i32>() != 0;
            forms.push(f);
            kinds.push(k);
            if unbalanced || k == "dangling-datum" {
                // a stray parenthesis ends the submission: nothing else shares its line
                break;
            }
        }
        subs.push(json!({"forms": forms, "kinds": kinds}));
    }
    let nsplit = 3;
    let mut splittings: Vec<Value> = vec![];
    for _ in 0..nsplit {
        let mut lines: Vec<Value> = vec![];
        for (si, s) in subs.iter().enumerate() {
            // blank / whitespace-only / comment-only lines between submissions
            for _ in 0..rng.pick_weighted(&[6, 2, 1]) {
                let l = *rng.pick(&["", "   ", "\t", "; a comment (with an open paren", ";; )) unbalanced the other way"]);
                lines.push(json!({"text": l, "completes": null}));
            }
            let mut toks: Vec<String> = vec![];
            for f in s["forms"].as_array().unwrap() {
                toks.extend(tokens(f.as_str().unwrap()));
            }
            // break only where the nesting depth is > 0: the submission must end on its last line
            let mut line = String::new();
            let mut depth = 0i32;
            let break_p = rng.range(0, 3) as u64;
            for (ti, t) in toks.iter().enumerate() {
                let quote_before = ti > 0 && toks[ti - 1] == "'";
                if !line.is_empty() && !quote_before {
                    let pad = *rng.pick(&[" ", " ", " ", "  ", "\t"]);
                    line.push_str(pad);
                }
                if t.contains('\n') {
                    let mut parts = t.split('\n');
                    line.push_str(parts.next().unwrap_or(""));
                    for part in parts {
                        lines.push(json!({"text": line, "completes": null}));
                        line = part.to_string();
                    }
                } else {
                    line.push_str(t);
                }
                depth += depth_delta(t);
                let last = ti + 1 == toks.len();
                if !last && depth > 0 && (t != "'" || rng.chance(1, 3)) && rng.chance(break_p, 6) {
                    if rng.chance(1, 5) {
                        line.push_str(" ; trailing comment (");
                    }
                    lines.push(json!({"text": line, "completes": null}));
                    line = String::new();
                    if rng.chance(1, 8) {
                        lines.push(json!({"text": "", "completes": null}));
                    }
                    if rng.chance(1, 8) {
                        lines.push(json!({"text": "  ; comment line inside a form )", "completes": null}));
                    }
                }
            }
            if rng.chance(1, 6) {
                line.push_str("  ; done )");
            }
            lines.push(json!({"text": line, "completes": si}));
        }
        let eof_after = if rng.chance(1, 3) { Some(rng.upto(lines.len())) } else { None };
        // sometimes the input simply ends after the last line, without a line terminator
        let unterminated = eof_after.is_none() && rng.chance(1, 4);
        splittings.push(json!({"lines": lines, "eof_after": eof_after, "last_line_unterminated": unterminated}));
    }
    json!({
        "seed": seed,
        "hash_seed": hash_seed,
        "submissions": subs,
        "splittings": splittings,
    })
}

// ------------------------------------------------------------------ reference

/// expected (stdout, stderr) per submission, by evaluating them in order in-process
fn reference(subs: &[Value]) -> Result<Vec<(String, String)>, String> {
    let mut out = vec![];
    let mut it = match guarded(Interpreter::<f32>::new_with_stdlib) {
        Ok(it) => it,
        Err(p) => return Err(format!("panic creating the reference interpreter: {}", p.signature())),
    };
    for s in subs {
        // "evaluating the same forms one after another on one interpreter": each form of the
        // submission by itself, stopping at the first that fails; only the last one's value shows
        let forms: Vec<String> = s["forms"].as_array().unwrap().iter().map(|f| f.as_str().unwrap().to_string()).collect();
        let mut so = String::new();
        let mut se = String::new();
        let n = forms.len();
        for (fi, text) in forms.iter().enumerate() {
            let (r, captured) = capture_stdout(|| guarded(|| it.eval(text.chars())));
            so.push_str(&String::from_utf8_lossy(&captured));
            match r {
                Ok(Ok(Some(v))) => {
                    if fi + 1 == n && !matches!(v, RValue::Void) {
                        so.push_str(&format!("{}\n", v));
                    }
                }
                Ok(Ok(None)) => {}
                Ok(Err(e)) => {
                    se.push_str(&format!("{}\n", e));
                    break;
                }
                Err(p) => return Err(format!("panic in the reference evaluation of {:?}: {}", text, p.signature())),
            }
        }
        out.push((so, se));
    }
    Ok(out)
}

/// What the REPL prints before reading anything and after end of input, learned from an
/// empty session of the same binary (once per process): the property ignores both texts,
/// so the check must not depend on their wording.
fn banner_and_farewell(hash_seed: u64) -> Result<(String, String), String> {
    static CAL: std::sync::OnceLock<Result<(String, String), String>> = std::sync::OnceLock::new();
    CAL.get_or_init(|| {
        let mut sess = Session::start(std::path::Path::new("/"), hash_seed).map_err(|e| format!("cannot start the ruschm binary: {}", e))?;
        let banner = match sess.settle(Duration::from_secs(90)) {
            Ok((o, _)) => String::from_utf8_lossy(&o).to_string(),
            Err(e) => {
                let _ = sess.finish(Duration::from_secs(5));
                return Err(format!("cannot observe an empty session: {:?}", e));
            }
        };
        let (o, _, _, timed_out) = sess.finish(Duration::from_secs(90));
        if timed_out {
            return Err("the REPL does not exit at end of input in an empty session".into());
        }
        Ok((banner, String::from_utf8_lossy(&o).to_string()))
    })
    .clone()
}

fn execute_f(case: Value) -> RunResult {
    let mut res = RunResult::default();
    let hash_seed = case["hash_seed"].as_u64().unwrap_or(1);
    let subs: Vec<Value> = case["submissions"].as_array().cloned().unwrap_or_default();
    let splittings: Vec<Value> = case["splittings"].as_array().cloned().unwrap_or_default();
    res.log.push(format!("seed={} hash_seed={} submissions={}", case["seed"], hash_seed, subs.len()));
    let expected = match reference(&subs) {
        Ok(e) => e,
        Err(e) => {
            // the library interface itself fails on this sequence: not this property's verdict
            res.discarded = Some(format!("reference evaluation failed: {}", e));
            return res;
        }
    };
    for (i, (so, se)) in expected.iter().enumerate() {
        res.log.push(format!("submission {} expects stdout={:?} stderr={:?}", i, so, se));
    }
    let case_has_literals = subs.iter().any(|s| {
        let k = s["kinds"].to_string();
        k.contains("paren-in") || k.contains("semicolon-in") || k.contains("backslash-at")
    });
    let lit_suffix = if case_has_literals { "/literal-containing-paren-or-semicolon" } else { "" };
    let (banner, farewell) = match banner_and_farewell(hash_seed) {
        Ok(x) => x,
        Err(e) => {
            res.violation = Some(Violation { signature: "C18/repl-does-not-start".into(), detail: json!({"error": e}) });
            return res;
        }
    };
    let cwd = std::path::PathBuf::from("/");
    let mut transcripts: Vec<(String, String, usize)> = vec![];
    let mut kinds_seen = String::new();
    for (k, sp) in splittings.iter().enumerate() {
        let lines: Vec<Value> = sp["lines"].as_array().cloned().unwrap_or_default();
        let eof_after = sp["eof_after"].as_u64().map(|x| x as usize);
        // the independent completeness judge must agree with the generator's annotation
        {
            let mut depth = 0i32;
            let mut in_string = false;
            for l in &lines {
                let t = l["text"].as_str().unwrap_or("");
                let (delta, nonblank) = scan_line(t, &mut in_string);
                depth += delta;
                let completes = !l["completes"].is_null();
                if in_string && completes {
                    res.invalid = Some(format!("splitting {} ends a submission inside a string at line {:?}", k, t));
                    return res;
                }
                if completes != (depth <= 0 && nonblank) && nonblank {
                    res.invalid = Some(format!("splitting {} is not well formed at line {:?}", k, t));
                    return res;
                }
                if depth < 0 {
                    depth = 0;
                }
            }
        }
        let mut sess = match Session::start(&cwd, hash_seed) {
            Ok(s) => s,
            Err(e) => {
                res.invalid = Some(format!("cannot start the ruschm binary: {}", e));
                return res;
            }
        };
        let mut cum_out = String::new();
        let mut cum_err = String::new();
        let mut exp_out = String::new();
        let mut exp_err = String::new();
        let mut done_subs = 0usize;
        let mut violation: Option<Violation> = None;
        // banner
        match sess.settle(Duration::from_secs(90)) {
            Ok((o, e)) => {
                cum_out.push_str(&String::from_utf8_lossy(&o));
                cum_err.push_str(&String::from_utf8_lossy(&e));
            }
            Err(SyncError::ProcUnreadable(m)) => {
                res.invalid = Some(format!("cannot observe the child: {}", m));
                let _ = sess.finish(Duration::from_secs(5));
                return res;
            }
            Err(e) => {
                violation = Some(Violation { signature: "C18/repl-does-not-start".into(), detail: json!({"error": format!("{:?}", e)}) });
            }
        }
        let banner_ok = cum_out == banner;
        if violation.is_none() && !banner_ok {
            violation = Some(Violation { signature: "C18/unexpected-output-before-input".into(), detail: json!({"stdout": cum_out, "stderr": cum_err}) });
        }
        let banner_len = cum_out.len();
        let mut sent = 0usize;
        if violation.is_none() {
            for (li, l) in lines.iter().enumerate() {
                if let Some(e) = eof_after {
                    if li >= e {
                        break;
                    }
                }
                let text = l["text"].as_str().unwrap_or("");
                if li + 1 == lines.len() && sp["last_line_unterminated"].as_bool().unwrap_or(false) {
                    // the input ends right after this line's last character: no terminator, no
                    // waiting; what it yields shows up in the transcript at the end
                    if sess.send_raw(text).is_err() {
                        violation = Some(Violation { signature: "C18/repl-closed-its-input".into(), detail: json!({"line": li}) });
                    }
                    sent += 1;
                    if let Some(si) = l["completes"].as_u64() {
                        done_subs = si as usize + 1;
                        exp_out.push_str(&expected[si as usize].0);
                        exp_err.push_str(&expected[si as usize].1);
                    }
                    res.count("probe.input_ends_without_line_terminator");
                    break;
                }
                if sess.send_line(text).is_err() {
                    violation = Some(Violation { signature: "C18/repl-closed-its-input".into(), detail: json!({"line": li}) });
                    break;
                }
                sent += 1;
                let (o, e) = match sess.settle(Duration::from_secs(90)) {
                    Ok(x) => x,
                    Err(SyncError::ProcUnreadable(m)) => {
                        res.invalid = Some(format!("cannot observe the child: {}", m));
                        let _ = sess.finish(Duration::from_secs(5));
                        return res;
                    }
                    Err(err) => {
                        violation = Some(Violation {
                            signature: format!("C18/repl-{}", if matches!(err, SyncError::Exited) { "exited-early" } else { "hangs" }),
                            detail: json!({"line": li, "text": text}),
                        });
                        break;
                    }
                };
                let o = String::from_utf8_lossy(&o).to_string();
                let e = String::from_utf8_lossy(&e).to_string();
                cum_out.push_str(&o);
                cum_err.push_str(&e);
                let completes = l["completes"].as_u64().map(|x| x as usize);
                res.log.push(format!("[split {}] line {:>2} {:?} => stdout {:?} stderr {:?}{}", k, li, text, o, e, if completes.is_some() { "  (completes a submission)" } else { "" }));
                match completes {
                    None => {
                        // not before: a line that completes nothing produces nothing
                        if !o.is_empty() || !e.is_empty() {
                            violation = Some(Violation {
                                signature: format!("C18/output-before-submission-is-complete{}", lit_suffix),
                                detail: json!({"splitting": k, "line": li, "text": text, "stdout": o, "stderr": e}),
                            });
                            break;
                        }
                    }
                    Some(si) => {
                        done_subs = si + 1;
                        exp_out.push_str(&expected[si].0);
                        exp_err.push_str(&expected[si].1);
                        kinds_seen.push_str(&subs[si]["kinds"].to_string());
                        // as soon as: the message now; stdout up to its last newline now
                        let got_out = &cum_out[banner_len..];
                        let upto_nl = match exp_out.rfind('\n') {
                            Some(p) => &exp_out[..=p],
                            None => "",
                        };
                        let ok_out = exp_out.starts_with(got_out) && got_out.starts_with(upto_nl);
                        let ok_err = cum_err == exp_err;
                        if !ok_out || !ok_err {
                            let kind = subs[si]["kinds"].as_array().and_then(|a| a.last().cloned()).unwrap_or(json!("?"));
                            let class = if o.is_empty() && e.is_empty() && (!expected[si].0.is_empty() || !expected[si].1.is_empty()) {
                                "nothing-printed-for-a-complete-submission"
                            } else if !ok_err {
                                "stderr-differs"
                            } else {
                                "stdout-differs"
                            };
                            violation = Some(Violation {
                                signature: format!("C18/{}{}", class, lit_suffix),
                                detail: json!({"splitting": k, "line": li, "text": text, "submission": si, "last_form_kind": kind,
                                    "expected_stdout_so_far": exp_out, "observed_stdout_so_far": got_out, "expected_stderr_so_far": exp_err, "observed_stderr_so_far": cum_err}),
                            });
                            break;
                        }
                    }
                }
            }
        }
        // EOF: the rest of the output, then the farewell
        let (o, e, code, timed_out) = sess.finish(Duration::from_secs(90));
        cum_out.push_str(&String::from_utf8_lossy(&o));
        cum_err.push_str(&String::from_utf8_lossy(&e));
        if violation.is_none() {
            if timed_out {
                violation = Some(Violation { signature: "C18/repl-does-not-exit-at-eof".into(), detail: json!({"splitting": k}) });
            } else if code != Some(0) {
                violation = Some(Violation { signature: "C18/repl-exit-status".into(), detail: json!({"splitting": k, "status": code, "stderr": cum_err}) });
            }
        }
        if violation.is_none() {
            // transcript of the completed submissions; unfinished input at EOF is not judged
            let body = &cum_out[banner_len..];
            let body = body.strip_suffix(farewell.as_str()).unwrap_or(body);
            let pending_at_eof = match eof_after {
                Some(e) => {
                    let mut pending = false;
                    for l in &lines[..e.min(lines.len())] {
                        if !l["completes"].is_null() {
                            pending = false;
                        } else if !tokens(&strip_comment(l["text"].as_str().unwrap_or(""))).is_empty() {
                            pending = true;
                        }
                    }
                    pending
                }
                None => false,
            };
            if !pending_at_eof {
                if body != exp_out || cum_err != exp_err {
                    violation = Some(Violation {
                        signature: format!("C18/transcript-differs-at-end{}", lit_suffix),
                        detail: json!({"splitting": k, "expected_stdout": exp_out, "observed_stdout": body, "expected_stderr": exp_err, "observed_stderr": cum_err}),
                    });
                }
            } else {
                res.count("probe.eof_with_pending_input");
                if !body.starts_with(&exp_out) || !cum_err.starts_with(&exp_err) {
                    violation = Some(Violation {
                        signature: format!("C18/transcript-differs-at-end{}", lit_suffix),
                        detail: json!({"splitting": k, "expected_stdout_prefix": exp_out, "observed_stdout": body, "expected_stderr_prefix": exp_err, "observed_stderr": cum_err}),
                    });
                } else if body != exp_out || cum_err != exp_err {
                    // the lines entered never closed their lists: they are not a form of the
                    // session, and nothing may be evaluated or printed on their account
                    violation = Some(Violation {
                        signature: format!("C18/output-for-unfinished-input-at-eof{}", lit_suffix),
                        detail: json!({"splitting": k, "extra_stdout": &body[exp_out.len()..], "extra_stderr": &cum_err[exp_err.len()..]}),
                    });
                }
            }
        }
        if eof_after.is_some() {
            res.count("fault.eof_injected");
        }
        res.steps += sent as u64;
        if let Some(v) = violation {
            res.violation = Some(v);
            break;
        }
        if eof_after.is_none() {
            transcripts.push((cum_out[banner_len..].to_string(), cum_err.clone(), done_subs));
        }
    }
    // across splittings of one sequence the transcripts are identical
    if res.violation.is_none() && transcripts.len() >= 2 {
        let first = &transcripts[0];
        if let Some(other) = transcripts.iter().find(|t| t.0 != first.0 || t.1 != first.1) {
            res.violation = Some(Violation {
                signature: "C18/transcript-depends-on-line-splitting".into(),
                detail: json!({"a": first.0, "b": other.0}),
            });
        }
    }
    let all_kinds: String = subs.iter().map(|s| s["kinds"].to_string()).collect();
    let shapes: String = splittings
        .iter()
        .map(|sp| {
            sp["lines"].as_array().map(|l| l.iter().map(|x| if x["completes"].is_null() { if x["text"].as_str().map(|t| tokens(&strip_comment(t)).is_empty()).unwrap_or(true) { 'b' } else { 'p' } } else { 'C' }).collect::<String>()).unwrap_or_default()
                + &format!("e{}", sp["eof_after"])
        })
        .collect::<Vec<_>>()
        .join("|");
    res.sched_hash = fnv64(format!("{}#{}", all_kinds, shapes).as_bytes());
    res.state_hashes.push(fnv64(format!("{:?}", expected).as_bytes()));
    res.nontrivial = shapes.contains('p');
    for k in ["paren-in-string", "paren-in-character", "semicolon-in-string", "failing-runtime", "failing-syntax", "display", "definition"] {
        if all_kinds.contains(k) {
            res.count(&format!("form_kind.{}", k));
        }
    }
    if shapes.contains('p') {
        res.count("probe.form_split_across_lines");
    }
    let _ = kinds_seen;
    res
}

/// nesting-depth change of one input line and whether it holds anything but blanks and
/// comments; `in_string` carries a string literal that continues from the previous line
fn scan_line(line: &str, in_string: &mut bool) -> (i32, bool) {
    let cs: Vec<char> = line.chars().collect();
    let mut i = 0;
    let mut delta = 0;
    let mut nonblank = *in_string;
    while i < cs.len() {
        let c = cs[i];
        if *in_string {
            nonblank = true;
            if c == '\\' {
                i += 1;
            } else if c == '"' {
                *in_string = false;
            }
        } else if c == '"' {
            nonblank = true;
            *in_string = true;
        } else if c == '#' && cs.get(i + 1) == Some(&'\\') {
            nonblank = true;
            i += 2;
        } else if c == '|' {
            nonblank = true;
            i += 1;
            while i < cs.len() && cs[i] != '|' {
                i += 1;
            }
        } else if c == ';' {
            break;
        } else if c == '(' {
            nonblank = true;
            delta += 1;
        } else if c == ')' {
            nonblank = true;
            delta -= 1;
        } else if !c.is_whitespace() {
            nonblank = true;
        }
        i += 1;
    }
    (delta, nonblank)
}

fn strip_comment(line: &str) -> String {
    // a ';' outside strings and characters starts a comment
    let cs: Vec<char> = line.chars().collect();
    let mut i = 0;
    let mut in_str = false;
    while i < cs.len() {
        let c = cs[i];
        if in_str {
            if c == '\\' {
                i += 1;
            } else if c == '"' {
                in_str = false;
            }
        } else if c == '"' {
            in_str = true;
        } else if c == '#' && cs.get(i + 1) == Some(&'\\') {
            i += 2;
        } else if c == '|' {
            i += 1;
            while i < cs.len() && cs[i] != '|' {
                i += 1;
            }
        } else if c == ';' {
            return cs[..i].iter().collect();
        }
        i += 1;
    }
    line.to_string()
}

impl Engine for EngineF {
    fn property(&self) -> &'static str {
        "C18"
    }
    fn engine_name(&self) -> &'static str {
        "repl-sim"
    }
    fn level(&self) -> &'static str {
        "fault_enumeration"
    }
    fn runs(&self, quick: bool) -> u64 {
        if quick { 8_000 } else { 300_000 }
    }
    fn generate(&self, seed: u64, quick: bool) -> Value {
        generate_f(seed, quick)
    }
    fn execute(&self, case: &Value) -> RunResult {
        let hash_seed = case["hash_seed"].as_u64().unwrap_or(1);
        let c = case.clone();
        match on_fresh_thread(hash_seed, move || execute_f(c)) {
            ThreadOutcome::Done(r) => r,
            ThreadOutcome::Panicked(p) => {
                let mut r = RunResult::default();
                r.invalid = Some(format!("harness panic: {} at {}:{}", p.message, p.file, p.line));
                r
            }
        }
    }
    fn shrink(&self, case: &Value) -> Vec<Value> {
        let mut out = vec![];
        let subs = case["submissions"].as_array().cloned().unwrap_or_default();
        let splits = case["splittings"].as_array().cloned().unwrap_or_default();
        // fewer splittings
        if splits.len() > 1 {
            for i in 0..splits.len() {
                out.push(with_field(case, "splittings", json!(without_index(&splits, i))));
            }
        }
        // drop a submission everywhere (its lines in every splitting, renumbering the rest)
        for si in (0..subs.len()).rev() {
            let mut c = case.clone();
            c["submissions"] = json!(without_index(&subs, si));
            let mut new_splits = vec![];
            for sp in &splits {
                let lines = sp["lines"].as_array().cloned().unwrap_or_default();
                // lines of submission si: from after the previous completing line to its completing line
                let mut keep = vec![];
                let mut cur = 0usize;
                let mut dropped_before_eof = 0usize;
                let eof = sp["eof_after"].as_u64().map(|x| x as usize);
                for (li, l) in lines.iter().enumerate() {
                    let this_sub = cur;
                    if let Some(c) = l["completes"].as_u64() {
                        cur = c as usize + 1;
                    }
                    if this_sub == si {
                        if eof.map(|e| li < e).unwrap_or(false) {
                            dropped_before_eof += 1;
                        }
                        continue;
                    }
                    let mut l = l.clone();
                    if let Some(c) = l["completes"].as_u64() {
                        if c as usize > si {
                            l["completes"] = json!(c - 1);
                        }
                    }
                    keep.push(l);
                }
                let new_eof = eof.map(|e| e - dropped_before_eof);
                new_splits.push(json!({"lines": keep, "eof_after": new_eof}));
            }
            c["splittings"] = json!(new_splits);
            out.push(c);
        }
        // no EOF fault; drop blank/comment lines; join a submission onto one line
        let spans_lines = case["submissions"].to_string().contains("newline-in-string");
        for (k, sp) in splits.iter().enumerate() {
            if spans_lines {
                if !sp["eof_after"].is_null() {
                    let mut s2 = splits.clone();
                    s2[k]["eof_after"] = Value::Null;
                    out.push(with_field(case, "splittings", json!(s2)));
                }
                continue;
            }
            if !sp["eof_after"].is_null() {
                let mut s2 = splits.clone();
                s2[k]["eof_after"] = Value::Null;
                out.push(with_field(case, "splittings", json!(s2)));
            }
            let lines = sp["lines"].as_array().cloned().unwrap_or_default();
            for li in (0..lines.len()).rev() {
                let t = lines[li]["text"].as_str().unwrap_or("");
                if lines[li]["completes"].is_null() && tokens(&strip_comment(t)).is_empty() {
                    let mut s2 = splits.clone();
                    s2[k]["lines"] = json!(without_index(&lines, li));
                    if let Some(e) = sp["eof_after"].as_u64() {
                        if (li as u64) < e {
                            s2[k]["eof_after"] = json!(e - 1);
                        }
                    }
                    out.push(with_field(case, "splittings", json!(s2)));
                }
            }
            for li in (0..lines.len().saturating_sub(1)).rev() {
                let t = lines[li]["text"].as_str().unwrap_or("");
                if lines[li]["completes"].is_null() && !tokens(&strip_comment(t)).is_empty() {
                    // merge with the next line
                    let mut l2 = lines.clone();
                    let merged = format!("{} {}", strip_comment(t), l2[li + 1]["text"].as_str().unwrap_or(""));
                    l2[li + 1]["text"] = json!(merged);
                    l2.remove(li);
                    let mut s2 = splits.clone();
                    s2[k]["lines"] = json!(l2);
                    if let Some(e) = sp["eof_after"].as_u64() {
                        if (li as u64) < e {
                            s2[k]["eof_after"] = json!(e - 1);
                        }
                    }
                    out.push(with_field(case, "splittings", json!(s2)));
                }
            }
        }
        out
    }
    fn rule(&self) -> String {
        "seeded REPL sessions against the real binary over pipes (further variations, see DESIGN.md 4.8: macro definitions with and without ellipsis and their uses, many kinds of printed values, multi-line string literals, effectful submissions ending in a surplus parenthesis or a dangling quote mark, bar identifiers, now and then 150-260 submissions): 3-20 submissions of 1-3 forms (definitions, expressions, display with and without newline, run-time and syntax errors, quoted data; in a third of the cases literals containing parentheses and semicolons), each sequence typed under 3 line splittings (breaks at inter-token positions inside a form only, blank / whitespace-only / comment-only lines, trailing comments containing parentheses), one line at a time in lock-step; in a third of the splittings stdin is closed after a random line. distinct = form kinds x line shapes x EOF position; non-trivial = at least one form was split across lines".into()
    }
    fn assumptions(&self) -> Vec<String> {
        vec![
            "the generator's own nesting-depth count is the completeness judge; what a submission prints comes from evaluating the same submissions in order through Interpreter::new_with_stdlib + eval in this process".into(),
            "a child that has consumed all input and is blocked in read(0) has finished what the line triggered (/proc/PID/syscall + FIONREAD); if /proc is unreadable the check reports a harness error".into(),
            "partial display output may stay in std's line buffer until the next newline or exit; what is done with unfinished input at EOF is not judged; banner and farewell are ignored".into(),
        ]
    }
    fn components(&self) -> Value {
        json!({
            "real": ["target ruschm binary (repl.rs, rustyline non-tty path, std stdout buffering)", "kernel pipes", "in-process interpreter for the reference transcript"],
            "stub": ["the user (simulator: one line at a time, EOF at a chosen line)", "entropy for HashMap keys (LD_PRELOAD shim)"],
            "model": ["nesting-depth completeness judge", "per-line attribution of output"]
        })
    }
}
