//! Engine C, "import-sim" (C12): one import declaration, executed under several
//! hash-key seeds (the schedule dimension is the iteration order of Ruschm's
//! HashMaps), compared with the set algebra of the reference module system and
//! with itself across seeds.

use crate::framework::*;
use crate::hashseed::{guarded, on_fresh_thread, ThreadOutcome};
use crate::observe::*;
use crate::refint::{LibEntry, Machine, NativeVal, RV};
use crate::rng::{fnv64, Rng};
use crate::sexp::{int, list, parse_one, sym, Sx};
use ruschm::interpreter::{Interpreter, LibraryFactory};
use ruschm::values::{Number, Value as RValue};
use serde_json::{json, Value};
use std::collections::{BTreeMap, BTreeSet};

pub struct EngineC;
pub static ENGINE_C12: EngineC = EngineC;

/// name -> origin ("lib:export"); None if the term is not admissible
fn algebra(term: &Sx, libs: &BTreeMap<String, Vec<String>>) -> Option<BTreeMap<String, String>> {
    let v = match term {
        Sx::List(v) if !v.is_empty() => v,
        _ => return None,
    };
    let ids = |xs: &[Sx]| -> Option<Vec<String>> {
        xs.iter().map(|x| x.as_sym().map(|s| s.to_string())).collect()
    };
    match v[0].as_sym() {
        Some("only") => {
            let inner = algebra(v.get(1)?, libs)?;
            let ids = ids(&v[2..])?;
            // an identifier the set does not contain selects nothing (an error by the report;
            // generated only in cases marked lenient, which are judged only if accepted)
            Some(inner.into_iter().filter(|(k, _)| ids.contains(k)).collect())
        }
        Some("except") => {
            let inner = algebra(v.get(1)?, libs)?;
            let ids = ids(&v[2..])?;
            Some(inner.into_iter().filter(|(k, _)| !ids.contains(k)).collect())
        }
        Some("prefix") => {
            let inner = algebra(v.get(1)?, libs)?;
            let p = v.get(2)?.as_sym()?;
            if v.len() != 3 {
                return None;
            }
            Some(inner.into_iter().map(|(k, o)| (format!("{}{}", p, k), o)).collect())
        }
        Some("rename") => {
            let inner = algebra(v.get(1)?, libs)?;
            let mut map = BTreeMap::new();
            for p in &v[2..] {
                match p {
                    Sx::List(p) if p.len() == 2 => {
                        let from = p[0].as_sym()?.to_string();
                        let to = p[1].as_sym()?.to_string();
                        if !inner.contains_key(&from) || map.contains_key(&from) {
                            return None;
                        }
                        map.insert(from, to);
                    }
                    _ => return None,
                }
            }
            let mut out = BTreeMap::new();
            for (k, o) in inner {
                let nk = map.get(&k).cloned().unwrap_or(k);
                if out.insert(nk, o).is_some() {
                    return None; // two bindings collapse onto one name
                }
            }
            Some(out)
        }
        _ => {
            let key = term.to_text();
            let exports = libs.get(&key)?;
            // what (lt facade) exports ARE bindings of (lt one): one name reaching a declaration
            // through both is one binding, not a conflict
            let home = if key == "(lt facade)" { "(lt one)".to_string() } else { key.clone() };
            Some(exports.iter().map(|e| (e.clone(), format!("{}:{}", home, e))).collect())
        }
    }
}

fn declaration_bindings(
    decl: &Sx,
    libs: &BTreeMap<String, Vec<String>>,
) -> Option<BTreeMap<String, String>> {
    let v = match decl {
        Sx::List(v) if v.first().and_then(|h| h.as_sym()) == Some("import") => v,
        _ => return None,
    };
    let mut all: BTreeMap<String, String> = BTreeMap::new();
    for set in &v[1..] {
        for (k, o) in algebra(set, libs)? {
            if let Some(prev) = all.get(&k) {
                if prev != &o {
                    return None; // one name, two values
                }
            }
            all.insert(k, o);
        }
    }
    Some(all)
}

fn depth_of(term: &Sx) -> usize {
    match term {
        Sx::List(v) if matches!(v.first().and_then(|h| h.as_sym()), Some("only" | "except" | "prefix" | "rename")) => {
            1 + v.get(1).map(depth_of).unwrap_or(0)
        }
        _ => 0,
    }
}

struct GenC<'a> {
    rng: &'a mut Rng,
    libs: &'a BTreeMap<String, Vec<String>>,
    fresh: u32,
    /// identifier lists may name something the set below does not contain
    absent_ids: bool,
    used_absent: bool,
}

impl<'a> GenC<'a> {
    /// a name that the set under `inner` does not contain: one its rename has renamed away,
    /// or one no library knows
    fn absent_name(&mut self, inner: &Sx, names: &[String]) -> String {
        if let Sx::List(v) = inner {
            if v.first().and_then(|h| h.as_sym()) == Some("rename") {
                let gone: Vec<String> = v[2..]
                    .iter()
                    .filter_map(|p| match p {
                        Sx::List(p) => p[0].as_sym().map(|s| s.to_string()),
                        _ => None,
                    })
                    .filter(|s| !names.contains(s))
                    .collect();
                if !gone.is_empty() {
                    return self.rng.pick(&gone).clone();
                }
            }
        }
        "qq7".to_string()
    }
}

impl<'a> GenC<'a> {
    fn term(&mut self, depth: usize) -> Sx {
        if depth == 0 {
            let keys: Vec<&String> = self.libs.keys().collect();
            let k = self.rng.pick(&keys);
            return parse_one(k).unwrap();
        }
        let inner = self.term(depth - 1);
        let names: Vec<String> = algebra(&inner, self.libs)
            .expect("inner admissible")
            .keys()
            .cloned()
            .collect();
        let op = self.rng.upto(4);
        match op {
            0 => {
                // (only S) with no identifier at all binds nothing
                let nonempty = !self.rng.chance(1, 6);
                let mut ids = self.subset(&names, nonempty);
                if !ids.is_empty() && self.rng.chance(1, 6) {
                    // an identifier listed twice
                    let again = self.rng.pick(&ids).clone();
                    ids.push(again);
                }
                if self.absent_ids && self.rng.chance(1, 2) {
                    let a = self.absent_name(&inner, &names);
                    ids.push(a);
                    self.used_absent = true;
                }
                self.rng.shuffle(&mut ids);
                let mut v = vec![sym("only"), inner];
                v.extend(ids.iter().map(|s| sym(s)));
                list(v)
            }
            1 => {
                let mut ids = self.subset(&names, false);
                if names.len() >= 16 && self.rng.chance(2, 3) {
                    // a few names struck from a large set
                    let mut all = names.clone();
                    self.rng.shuffle(&mut all);
                    let few = self.rng.range(2, 4) as usize;
                    ids = all.into_iter().take(few).collect();
                }
                if self.absent_ids && self.rng.chance(1, 2) {
                    let a = self.absent_name(&inner, &names);
                    ids.push(a);
                    self.used_absent = true;
                }
                self.rng.shuffle(&mut ids);
                let mut v = vec![sym("except"), inner];
                v.extend(ids.iter().map(|s| sym(s)));
                list(v)
            }
            2 => {
                let p = *self.rng.pick(&["p-", "x", "a", "b", "my:"]);
                list(vec![sym("prefix"), inner, sym(p)])
            }
            _ => {
                let mut sources = self.subset(&names, true);
                self.rng.shuffle(&mut sources);
                let staying: BTreeSet<&String> = names.iter().filter(|n| !sources.contains(n)).collect();
                // targets: a permutation-like choice among the sources themselves (swaps,
                // chains) and fresh names, never a name that stays
                let mut pool: Vec<String> = sources.clone();
                for _ in 0..sources.len() {
                    self.fresh += 1;
                    // fresh names that no library exports
                    pool.push(format!("zz{}", self.fresh));
                }
                // ... and names some library exports that are NOT in the set any more (an only
                // or except below took them out, a prefix or rename respelled them): free to use
                let gone: Vec<String> = self
                    .libs
                    .values()
                    .flatten()
                    .filter(|e| !names.contains(e))
                    .cloned()
                    .collect();
                if !gone.is_empty() && self.rng.chance(1, 2) {
                    let g = self.rng.pick(&gone).clone();
                    if !pool.contains(&g) {
                        pool.push(g);
                    }
                }
                pool.retain(|t| !staying.contains(t));
                self.rng.shuffle(&mut pool);
                let mut pairs = vec![];
                for (i, s) in sources.iter().enumerate() {
                    let t = pool[i].clone();
                    pairs.push(list(vec![sym(s), sym(&t)]));
                }
                let mut v = vec![sym("rename"), inner];
                v.extend(pairs);
                list(v)
            }
        }
    }
    fn subset(&mut self, names: &[String], nonempty: bool) -> Vec<String> {
        let mut out: Vec<String> = names.iter().filter(|_| self.rng.chance(1, 2)).cloned().collect();
        if out.is_empty() && nonempty && !names.is_empty() {
            out.push(self.rng.pick(names).clone());
        }
        out
    }
}

fn generate_c(seed: u64, quick: bool) -> Value {
    let mut rng = Rng::new(seed);
    let nseeds = if quick { 4 } else { 16 };
    let hash_seeds: Vec<u64> = (0..nseeds).map(|_| rng.next_u64() | 1).collect();
    if rng.chance(1, 15) {
        // two libraries export a vector of one name and equal contents: after the second
        // declaration the name is the second library's object (seen by writing through the
        // name and reading through each library's own accessor)
        let mut libs: BTreeMap<String, Vec<String>> = BTreeMap::new();
        libs.insert("(lt va)".into(), vec!["vbox".into(), "va-get".into()]);
        libs.insert("(lt vb)".into(), vec!["vbox".into(), "vb-get".into()]);
        let second = *rng.pick(&["(import (lt vb))", "(import (only (lt vb) vbox vb-get))", "(import (rename (lt vb) (vb-get vb-get)))"]);
        return json!({
            "seed": seed,
            "hash_seeds": hash_seeds,
            "delivery": *rng.pick(&["text", "file"]),
            "libs": libs,
            "decl": "(import (lt va))",
            "decl2": second,
            "identity_probe": true,
        });
    }
    let delivery = *rng.pick(&["native", "text", "file"]);
    // one or two libraries with overlapping export names
    let mut libs: BTreeMap<String, Vec<String>> = BTreeMap::new();
    libs.insert("(lt one)".into(), vec!["a".into(), "b".into(), "c".into(), "d".into()]);
    if rng.chance(1, 3) {
        // one export name is a prefix of the other
        libs.insert("(lt two)".into(), vec!["e".into(), "e!".into()]);
    }
    if rng.chance(1, 5) {
        // a library with many exports
        libs.insert("(lt big)".into(), (0..20).map(|i| format!("n{}", i)).collect());
    }
    if rng.chance(1, 5) {
        // a library with values that are not equal to themselves (a not-a-number real, and a
        // vector holding one): the same binding twice in one declaration is still one binding
        libs.insert("(lt odd)".into(), vec!["nan".into(), "nanvec".into()]);
    }
    if rng.chance(1, 4) {
        // a library that passes on two of (lt one)'s exports under their own names
        libs.insert("(lt facade)".into(), vec!["a".into(), "c".into()]);
    }
    if rng.chance(1, 4) {
        // a library whose exports are native procedures (re-exported from the bundled base
        // library, or handed over natively): values with an identity of their own
        libs.insert("(lt procs)".into(), PROC_EXPORTS.iter().map(|(e, _)| e.to_string()).collect());
    }
    let max_depth = if quick { 2 } else { 3 };
    // one case in eight: only / except may name identifiers their set does not contain (an
    // error by the report). Such a case is judged only if the implementation accepts the
    // declaration; then absent names select and strike nothing
    let lenient = rng.chance(1, 8);
    let mut used_absent = false;
    let mut decl;
    let mut tries = 0;
    loop {
        tries += 1;
        let nsets = rng.pick_weighted(&[5, 3, 2]) + 1;
        let mut g = GenC { rng: &mut rng, libs: &libs, fresh: 0, absent_ids: lenient, used_absent: false };
        let mut v = vec![sym("import")];
        for _ in 0..nsets {
            let d = g.rng.upto(max_depth + 1);
            v.push(g.term(d));
        }
        decl = list(v);
        used_absent = g.used_absent;
        if declaration_bindings(&decl, &libs).is_some() || tries > 50 {
            break;
        }
    }
    if declaration_bindings(&decl, &libs).is_none() {
        decl = parse_one("(import (lt one))").unwrap();
        used_absent = false;
    }
    let lenient = lenient && used_absent;
    // sometimes a second declaration follows; it may well land on names the first one bound
    let mut decl2 = None;
    if rng.chance(1, 3) && !lenient {
        for _ in 0..20 {
            let mut g = GenC { rng: &mut rng, libs: &libs, fresh: 0, absent_ids: false, used_absent: false };
            let d = g.rng.upto(max_depth + 1);
            let cand = list(vec![sym("import"), g.term(d)]);
            if declaration_bindings(&cand, &libs).is_some() {
                decl2 = Some(cand.to_text());
                break;
            }
        }
    }
    // sometimes a declaration that fails comes first: one good import set and a library that
    // exists nowhere. Whatever it did or did not bind, the declaration under test afterwards
    // gains exactly its own bindings
    let mut decl0 = None;
    if rng.chance(1, 5) && !lenient {
        let mut g = GenC { rng: &mut rng, libs: &libs, fresh: 0, absent_ids: false, used_absent: false };
        let d = g.rng.upto(2);
        let good = g.term(d);
        if algebra(&good, &libs).is_some() {
            let missing = parse_one("(lt nowhere)").unwrap();
            let sets = if rng.chance(2, 3) { vec![good, missing] } else { vec![missing, good] };
            let mut v = vec![sym("import")];
            v.extend(sets);
            decl0 = Some(list(v).to_text());
        }
    }
    json!({
        "decl0": decl0,
        // the declaration is made by a library, which passes on everything it received
        "through_library": rng.chance(1, 4) && !lenient,
        "lenient_ids": lenient,
        "decl2": decl2,
        "seed": seed,
        "hash_seeds": hash_seeds,
        "delivery": delivery,
        "libs": libs,
        "decl": decl.to_text(),
    })
}

/// forms evaluated after the declarations of an identity-probe case
const IDENTITY_PROBES: &[(&str, &str)] = &[
    ("@0", "(import (only (scheme base) vector-set!))"),
    ("@1", "(vector-set! vbox 0 99)"),
    ("@2", "(vb-get)"),
    ("@3", "(va-get)"),
];

/// exports of (lt procs) and the bundled procedure each of them is
const PROC_EXPORTS: &[(&str, &str)] = &[("pcar", "car"), ("pcdr", "cdr"), ("pnull", "null?")];

fn export_value(lib: &str, export: &str) -> i64 {
    // (lt one): a distinct value per export; (lt two): both exports hold the SAME value,
    // so that anything keyed by value instead of by name shows
    if lib == "(lt big)" {
        return 300 + export[1..].parse::<i64>().unwrap_or(0);
    }
    if lib != "(lt one)" && lib != "(lt facade)" {
        return 205;
    }
    100 + (export.as_bytes()[0] as i64 - b'a' as i64) + 1
}

fn lib_text(key: &str, exports: &[String]) -> String {
    if key == "(lt va)" || key == "(lt vb)" {
        let t = &key[4..6];
        return format!(
            "(define-library {k} (import (scheme base)) (export vbox {t}-get) (begin (define vbox (vector 7)) (define ({t}-get) (vector-ref vbox 0))))",
            k = key,
            t = t
        );
    }
    if key == "(lt facade)" {
        return format!("(define-library (lt facade) (import (lt one)) (export {}))", exports.join(" "));
    }
    if key == "(lt odd)" {
        return "(define-library (lt odd) (import (scheme base)) (export nan nanvec) (begin (define nan (sqrt -1)) (define nanvec (vector 1 (sqrt -1)))))".to_string();
    }
    if key == "(lt procs)" {
        return format!(
            "(define-library (lt procs) (import (scheme base)) (export {}))",
            PROC_EXPORTS.iter().map(|(e, b)| format!("(rename {} {})", b, e)).collect::<Vec<_>>().join(" ")
        );
    }
    // internal names differ from external ones for half of the exports
    let mut specs = vec![];
    let mut defs = vec![];
    for (i, e) in exports.iter().enumerate() {
        if i % 2 == 0 {
            specs.push(format!("(rename internal-{} {})", e, e));
            defs.push(format!("(define internal-{} {})", e, export_value(key, e)));
        } else {
            specs.push(e.clone());
            defs.push(format!("(define {} {})", e, export_value(key, e)));
        }
    }
    format!(
        "(define-library {} (export {}) (begin {}))",
        key,
        specs.join(" "),
        defs.join(" ")
    )
}

fn lib_name_parts(key: &str) -> Vec<String> {
    key.trim_matches(|c| c == '(' || c == ')')
        .split(' ')
        .map(|s| s.to_string())
        .collect()
}

/// the text the program evaluates, and the wrapper library when the declaration under test is
/// made by a library instead of the program
fn program_and_wrapper(case: &Value, libs: &BTreeMap<String, Vec<String>>) -> (String, Option<String>) {
    let decl = case["decl"].as_str().unwrap_or("").to_string();
    if !case["through_library"].as_bool().unwrap_or(false) {
        return (decl, None);
    }
    let names: Vec<String> = parse_one(&decl)
        .ok()
        .and_then(|d| declaration_bindings(&d, libs))
        .map(|b| b.keys().cloned().collect())
        .unwrap_or_default();
    let wrapper = format!("(define-library (lt wrap) {} (export {}))", decl, names.join(" "));
    ("(import (lt wrap))".to_string(), Some(wrapper))
}

type Observation = Result<Vec<(String, String)>, String>;

fn observe_once(case: &Value, dir: Option<std::path::PathBuf>) -> Observation {
    let delivery = case["delivery"].as_str().unwrap_or("native").to_string();
    let libs: BTreeMap<String, Vec<String>> =
        serde_json::from_value(case["libs"].clone()).unwrap_or_default();
    let (decl, wrapper) = program_and_wrapper(case, &libs);
    let r = guarded(|| {
        let mut it = Interpreter::<f32>::default();
        // procedure values are told apart by the interpreter's own equality (what eq? uses),
        // against reference values that come from the same place as the exported ones
        let mut refs: Vec<(String, RValue<f32>)> = vec![];
        if delivery == "native" && libs.contains_key("(lt procs)") {
            let std = Interpreter::<f32>::new_with_stdlib();
            for (_, b) in PROC_EXPORTS {
                match std.env.get(b) {
                    Some(v) => refs.push((b.to_string(), (*v).clone())),
                    None => return Err(format!("the bundled library has no {}", b)),
                }
            }
        }
        if let (Some(w), true) = (&wrapper, delivery != "file") {
            match LibraryFactory::from_char_stream(&library_name_of(&["lt", "wrap"]), w.chars()) {
                Ok(f) => it.register_library_factory(f),
                Err(e) => return Err(format!("wrapper library text rejected: {}", e)),
            }
        }
        for (key, exports) in &libs {
            let parts = lib_name_parts(key);
            let parts_ref: Vec<&str> = parts.iter().map(|s| s.as_str()).collect();
            let name = library_name_of(&parts_ref);
            match delivery.as_str() {
                "native" => {
                    let items: Vec<(String, RValue<f32>)> = if key == "(lt odd)" {
                        vec![
                            ("nan".to_string(), RValue::Number(Number::Real(f32::NAN))),
                            (
                                "nanvec".to_string(),
                                RValue::Vector(ruschm::values::ValueReference::new_mutable(vec![
                                    RValue::Number(Number::Integer(1)),
                                    RValue::Number(Number::Real(f32::NAN)),
                                ])),
                            ),
                        ]
                    } else if key == "(lt procs)" {
                        PROC_EXPORTS
                            .iter()
                            .map(|(e, b)| (e.to_string(), refs.iter().find(|r| r.0 == *b).unwrap().1.clone()))
                            .collect()
                    } else {
                        exports
                            .iter()
                            .map(|e| (e.clone(), RValue::Number(Number::Integer(export_value(key, e) as i32))))
                            .collect()
                    };
                    it.register_library_factory(LibraryFactory::Native(
                        name,
                        Box::new(move || items.clone()),
                    ));
                }
                "text" => {
                    let text = lib_text(key, exports);
                    match LibraryFactory::from_char_stream(&name, text.chars()) {
                        Ok(f) => it.register_library_factory(f),
                        Err(e) => return Err(format!("library text rejected: {}", e)),
                    }
                }
                _ => {}
            }
        }
        if delivery == "file" {
            it.program_directory = dir.clone();
        }
        if let Some(d0) = case["decl0"].as_str() {
            if it.eval(d0.chars()).is_ok() {
                return Err("DECL0-OK".to_string());
            }
        }
        // the names the declaration(s) under test must bind are always reported; any other
        // name only if it is new or changed
        let mut must: BTreeSet<String> = BTreeSet::new();
        for t in [case["decl"].as_str(), case["decl2"].as_str()].into_iter().flatten() {
            if let Some(b) = parse_one(t).ok().and_then(|d| declaration_bindings(&d, &libs)) {
                must.extend(b.keys().cloned());
            }
        }
        // what the declaration adds: compared with the environment as it was before
        let mut before: BTreeMap<String, RValue<f32>> = BTreeMap::new();
        {
            let mut defs = it.env.iter_local_definitions();
            for (k, v) in &mut *defs {
                before.insert(k.clone(), v.clone());
            }
        }
        match it.eval(decl.chars()) {
            Ok(_) => {}
            Err(e) => return Err(format!("import failed: {:?}", kind_of_error(&e))),
        }
        if let Some(d2) = case["decl2"].as_str() {
            match it.eval(d2.chars()) {
                Ok(_) => {}
                Err(e) => return Err(format!("second import failed: {:?}", kind_of_error(&e))),
            }
        }
        let mut added: Vec<(String, RValue<f32>)> = vec![];
        {
            let mut defs = it.env.iter_local_definitions();
            for (k, v) in &mut *defs {
                if before.get(k) != Some(v) || must.contains(k) {
                    added.push((k.clone(), v.clone()));
                }
            }
        }
        if delivery != "native" && libs.contains_key("(lt procs)") {
            // the library re-exports this interpreter's bundled procedures: fetch those
            let names: Vec<&str> = PROC_EXPORTS.iter().map(|(_, b)| *b).collect();
            match it.eval(format!("(import (only (scheme base) {}))", names.join(" ")).chars()) {
                Ok(_) => {}
                Err(e) => return Err(format!("reference import failed: {:?}", kind_of_error(&e))),
            }
            for b in names {
                match it.env.get(b) {
                    Some(v) => refs.push((b.to_string(), (*v).clone())),
                    None => return Err(format!("the bundled library has no {}", b)),
                }
            }
        }
        let mut out: Vec<(String, String)> = added
            .into_iter()
            .map(|(k, v)| {
                let o = match &v {
                    RValue::Procedure(_) => match refs.iter().find(|r| r.1 == v) {
                        Some(r) => format!("proc:{}", r.0),
                        None if !libs.contains_key("(lt procs)") => obs_of_value(&v).short(),
                        None => "proc:not-one-of-the-exported-procedures".to_string(),
                    },
                    _ => obs_of_value(&v).short(),
                };
                (k, o)
            })
            .collect();
        out.sort();
        if case["identity_probe"].as_bool().unwrap_or(false) {
            for (tag, text) in IDENTITY_PROBES {
                let r = match it.eval(text.chars()) {
                    Ok(v) => match v.as_ref().map(|v| obs_of_value(v).short()) {
                        None => "-".to_string(),
                        Some(t) if t == "<unspec>" => "-".to_string(),
                        Some(t) => t,
                    },
                    Err(e) => format!("error {:?}", kind_of_error(&e)),
                };
                out.push((tag.to_string(), r));
            }
        }
        Ok(out)
    });
    match r {
        Ok(o) => o,
        Err(p) => Err(format!("panic/{}", p.signature())),
    }
}

fn execute_c(case: &Value) -> RunResult {
    let mut res = RunResult::default();
    let libs: BTreeMap<String, Vec<String>> =
        serde_json::from_value(case["libs"].clone()).unwrap_or_default();
    let decl_text = case["decl"].as_str().unwrap_or("").to_string();
    let decl = match parse_one(&decl_text) {
        Ok(d) => d,
        Err(e) => {
            res.invalid = Some(e);
            return res;
        }
    };
    if declaration_bindings(&decl, &libs).is_none() {
        res.invalid = Some("import declaration is not admissible".into());
        return res;
    }
    let delivery = case["delivery"].as_str().unwrap_or("native").to_string();
    res.log.push(format!("seed={} delivery={} decl0={} decl={} decl2={}", case["seed"], delivery, case["decl0"], decl_text, case["decl2"]));
    if case["decl0"].is_string() {
        res.count("probe.failing_declaration_first");
    }
    if case["lenient_ids"].as_bool().unwrap_or(false) {
        res.count("probe.identifier_list_names_an_absent_identifier");
    }
    // model: the reference module system
    let mut m = Machine::new_empty();
    for (key, exports) in &libs {
        if key == "(lt odd)" {
            m.world.insert(
                key.clone(),
                LibEntry::Native(vec![("nan".to_string(), NativeVal::Sym("@nan".into())), ("nanvec".to_string(), NativeVal::Sym("@nanvec".into()))]),
            );
            res.count("probe.values_not_equal_to_themselves");
            continue;
        }
        if key == "(lt procs)" {
            m.world.insert(
                key.clone(),
                LibEntry::Native(PROC_EXPORTS.iter().map(|(e, b)| (e.to_string(), NativeVal::Builtin(b.to_string()))).collect()),
            );
            res.count("probe.procedure_valued_exports");
            continue;
        }
        if delivery == "native" {
            m.world.insert(
                key.clone(),
                LibEntry::Native(exports.iter().map(|e| (e.clone(), NativeVal::Int(export_value(key, e)))).collect()),
            );
        } else {
            m.world.insert(key.clone(), LibEntry::Def(parse_one(&lib_text(key, exports)).unwrap()));
        }
    }
    // the library bodies use `define` with integer literals only: no base import needed
    let second = match case["decl2"].as_str() {
        Some(t) => match parse_one(t) {
            Ok(d) if declaration_bindings(&d, &libs).is_some() => Some(d),
            _ => {
                res.invalid = Some("second import declaration is not admissible".into());
                return res;
            }
        },
        None => None,
    };
    if case["identity_probe"].as_bool().unwrap_or(false) {
        m.world.insert(
            "(scheme base)".into(),
            LibEntry::Native(crate::refint::BUILTINS.iter().map(|(n, _, _)| (n.to_string(), NativeVal::Builtin(n.to_string()))).collect()),
        );
        res.count("probe.identity_of_an_imported_vector");
    }
    let (program_text, wrapper) = program_and_wrapper(case, &libs);
    if let Some(w) = &wrapper {
        m.world.insert("(lt wrap)".into(), LibEntry::Def(parse_one(w).unwrap()));
        res.count("probe.declaration_made_by_a_library");
        res.log.push(format!("wrapper: {}", w));
    }
    let program_decl = parse_one(&program_text).unwrap();
    let model_result = m.eval_top(&program_decl).and_then(|v| match &second {
        Some(d) => m.eval_top(d),
        None => Ok(v),
    });
    if second.is_some() {
        res.count("probe.second_declaration");
    }
    let expected: Vec<(String, String)> = match model_result {
        Ok(_) => {
            let mut v: Vec<(String, String)> = m
                .root
                .vars
                .borrow()
                .iter()
                .map(|(k, v)| {
                    (
                        k.clone(),
                        match v {
                            RV::Sym(t) if t == "@nan" => "<other num NaN>".to_string(),
                            RV::Sym(t) if t == "@nanvec" => "#(1 <other num NaN>)".to_string(),
                            RV::Builtin(b) => format!("proc:{}", b),
                            _ => obs_of_rv(&m, v).short(),
                        },
                    )
                })
                .collect();
            v.sort();
            if case["identity_probe"].as_bool().unwrap_or(false) {
                for (tag, text) in IDENTITY_PROBES {
                    let r = match m.eval_top(&parse_one(text).unwrap()) {
                        Ok(RV::Unspec) => "-".to_string(),
                        Ok(rv) => obs_of_rv(&m, &rv).short(),
                        Err(e) => format!("error {:?}", e),
                    };
                    v.push((tag.to_string(), r));
                }
            }
            v
        }
        Err(e) => {
            res.invalid = Some(format!("reference module system rejects the case: {:?}", e));
            return res;
        }
    };
    res.log.push(format!("model: {:?}", expected));
    // sandbox for file delivery
    let mut dir = None;
    if delivery == "file" {
        let d = crate::sandbox::fresh_dir("c12");
        for (key, exports) in &libs {
            let parts = lib_name_parts(key);
            let mut p = d.clone();
            for part in &parts[..parts.len() - 1] {
                p.push(part);
            }
            let _ = std::fs::create_dir_all(&p);
            p.push(format!("{}.sld", parts[parts.len() - 1]));
            std::fs::write(&p, lib_text(key, exports)).expect("write library file");
        }
        if let Some(w) = &wrapper {
            let _ = std::fs::create_dir_all(d.join("lt"));
            std::fs::write(d.join("lt").join("wrap.sld"), w).expect("write wrapper library file");
        }
        dir = Some(d);
    }
    let hash_seeds: Vec<u64> = case["hash_seeds"]
        .as_array()
        .map(|a| a.iter().filter_map(|x| x.as_u64()).collect())
        .unwrap_or_default();
    let mut observations: Vec<(u64, Observation)> = vec![];
    for hs in &hash_seeds {
        let c = case.clone();
        let d = dir.clone();
        let o = match on_fresh_thread(*hs, move || observe_once(&c, d)) {
            ThreadOutcome::Done(o) => o,
            ThreadOutcome::Panicked(p) => Err(format!("harness panic {}", p.message)),
        };
        res.log.push(format!("hash_seed={} => {:?}", hs, o));
        res.steps += 1;
        observations.push((*hs, o));
    }
    if let Some(d) = dir {
        crate::sandbox::remove_dir(&d);
    }
    // verdict 2: the same on every run
    let first = observations[0].1.clone();
    if let Some((hs, o)) = observations.iter().find(|(_, o)| *o != first) {
        res.violation = Some(Violation {
            signature: "C12/hash-order-dependent".into(),
            detail: json!({"decl": decl_text, "seed_a": observations[0].0, "observed_a": format!("{:?}", first), "seed_b": hs, "observed_b": format!("{:?}", o), "expected": format!("{:?}", expected)}),
        });
    } else {
        // verdict 1: observed == algebra
        // a second declaration that brings a name the first one bound to something else: an
        // error by the report, so an implementation may refuse it
        let second_conflicts = match (&second, declaration_bindings(&decl, &libs)) {
            (Some(d2), Some(b1)) => declaration_bindings(d2, &libs)
                .map(|b2| b2.iter().any(|(k, o)| b1.get(k).map(|o1| o1 != o).unwrap_or(false)))
                .unwrap_or(false),
            _ => false,
        };
        match &first {
            Err(e) if second_conflicts && e.starts_with("second import failed") => {
                res.discarded = Some("the second declaration rebinds an imported name to another binding and the implementation refuses it (as the report allows)".into());
                res.log.push(format!("not judged: {}", e));
            }
            Err(e) if case["lenient_ids"].as_bool().unwrap_or(false) && !e.starts_with("panic/") => {
                res.discarded = Some("the declaration names an identifier its set does not contain and the implementation refuses it (as the report allows)".into());
                res.log.push(format!("not judged: {}", e));
            }
            Err(e) => {
                let sig = if e.starts_with("panic/") {
                    format!("C12/{}", e)
                } else if e == "DECL0-OK" {
                    "C12/declaration-over-a-missing-library-succeeds".to_string()
                } else {
                    "C12/import-failed".to_string()
                };
                res.violation = Some(Violation {
                    signature: sig,
                    detail: json!({"decl": decl_text, "observed": e, "expected": format!("{:?}", expected)}),
                });
            }
            Ok(o) if *o != expected => {
                res.violation = Some(Violation {
                    signature: "C12/wrong-bindings".into(),
                    detail: json!({"decl": decl_text, "observed": format!("{:?}", o), "expected": format!("{:?}", expected)}),
                });
            }
            _ => {}
        }
    }
    let v = match &decl {
        Sx::List(v) => v.clone(),
        _ => vec![],
    };
    let maxd = v[1..].iter().map(depth_of).max().unwrap_or(0);
    res.nontrivial = maxd >= 2 || v.len() > 2;
    res.sched_hash = fnv64(format!("{}|{}|{}|{}", decl_text, case["decl2"], delivery, format!("{}{}", case["through_library"], case["decl0"])).as_bytes());
    res.state_hashes.push(fnv64(format!("{:?}", expected).as_bytes()));
    res.count(&format!("delivery.{}", delivery));
    res.count(&format!("depth.{}", maxd));
    res.count(&format!("sets.{}", v.len() - 1));
    if decl_text.contains("rename") {
        // chains and swaps: a target that is also a source
        let mut chain = false;
        fn scan(t: &Sx, chain: &mut bool) {
            if let Sx::List(v) = t {
                if v.first().and_then(|h| h.as_sym()) == Some("rename") {
                    let sources: Vec<&str> = v[2..]
                        .iter()
                        .filter_map(|p| match p {
                            Sx::List(p) => p[0].as_sym(),
                            _ => None,
                        })
                        .collect();
                    for p in &v[2..] {
                        if let Sx::List(p) = p {
                            if let Some(t) = p[1].as_sym() {
                                if sources.contains(&t) {
                                    *chain = true;
                                }
                            }
                        }
                    }
                }
                for x in v {
                    scan(x, chain);
                }
            }
        }
        scan(&decl, &mut chain);
        if chain {
            res.count("probe.rename_chain_or_swap");
        }
    }
    let _ = int(0);
    let _ = RV::Nil;
    res
}

impl Engine for EngineC {
    fn property(&self) -> &'static str {
        "C12"
    }
    fn engine_name(&self) -> &'static str {
        "import-sim"
    }
    fn level(&self) -> &'static str {
        "exploration"
    }
    fn runs(&self, quick: bool) -> u64 {
        if quick { 20_000 } else { 300_000 }
    }
    fn generate(&self, seed: u64, quick: bool) -> Value {
        generate_c(seed, quick)
    }
    fn execute(&self, case: &Value) -> RunResult {
        execute_c(case)
    }
    fn shrink(&self, case: &Value) -> Vec<Value> {
        let mut out = vec![];
        let decl = match parse_one(case["decl"].as_str().unwrap_or("")) {
            Ok(d) => d,
            Err(_) => return out,
        };
        let v = match &decl {
            Sx::List(v) => v.clone(),
            _ => return out,
        };
        // drop an import set
        if v.len() > 2 {
            for i in 1..v.len() {
                let mut w = v.clone();
                w.remove(i);
                out.push(with_field(case, "decl", json!(list(w).to_text())));
            }
        }
        // replace a term by its inner term; drop identifiers / renaming pairs
        fn variants(t: &Sx) -> Vec<Sx> {
            let mut out = vec![];
            if let Sx::List(v) = t {
                if matches!(v.first().and_then(|h| h.as_sym()), Some("only" | "except" | "prefix" | "rename")) {
                    out.push(v[1].clone());
                    for i in 2..v.len() {
                        if v[0].as_sym() != Some("prefix") {
                            let mut w = v.clone();
                            w.remove(i);
                            out.push(Sx::List(w));
                        }
                    }
                    for inner in variants(&v[1]) {
                        let mut w = v.clone();
                        w[1] = inner;
                        out.push(Sx::List(w));
                    }
                }
            }
            out
        }
        for i in 1..v.len() {
            for alt in variants(&v[i]) {
                let mut w = v.clone();
                w[i] = alt;
                out.push(with_field(case, "decl", json!(list(w).to_text())));
            }
        }
        if !case["decl2"].is_null() {
            out.insert(0, with_field(case, "decl2", Value::Null));
        }
        // fewer hash seeds
        if let Some(hs) = case["hash_seeds"].as_array() {
            if hs.len() > 2 {
                for i in 0..hs.len() {
                    out.push(with_field(case, "hash_seeds", json!(without_index(hs, i))));
                }
            }
        }
        for d in ["native", "text"] {
            if case["delivery"].as_str() != Some(d) {
                out.push(with_field(case, "delivery", json!(d)));
            }
        }
        out
    }
    fn rule(&self) -> String {
        "seeded import declarations of 1-3 import sets, each a term over only/except/prefix/rename of depth <= 2 (quick) / <= 3 (thorough), admissible by construction (identifiers from the current name set; simultaneous renamings incl. swaps and chains, never onto a surviving name; no name bound to two values), library delivered natively / as registered text / as a file; optionally a failing declaration first (good set + missing library), a second declaration afterwards, the declaration made by a wrapper library that passes on what it received; libraries with 4 exports, 2 exports of one value whose names are prefixes of each other, 20 exports, and native procedures as exports (identity by the interpreter's own equality); each executed on a fresh interpreter under 4 (quick) / 16 (thorough) hash-key seeds. distinct = declaration text x delivery; non-trivial = nesting depth >= 2 or >= 2 import sets".into()
    }
    fn assumptions(&self) -> Vec<String> {
        vec![
            "the set algebra in sim/src/refint.rs + engine_c::algebra is the meaning of import sets".into(),
            "hash iteration order is the only run-to-run nondeterminism of an import; it is controlled through the interposed getrandom".into(),
            "inadmissible declarations (colliding renames, one name bound to two values, renaming an unknown identifier) are errors in R7RS and are not generated; one case in eight lets only / except name an identifier their set does not contain - judged only if the implementation accepts the declaration (then such a name selects and strikes nothing), discarded if it refuses it".into(),
        ]
    }
    fn components(&self) -> Value {
        json!({
            "real": ["parser (import sets)", "eval_import / eval_import_set", "library loader incl. file lookup", "environment"],
            "stub": ["entropy for HashMap keys (getrandom interposed)", "library contents (generated)"],
            "model": ["import-set algebra over name -> value"]
        })
    }
}
